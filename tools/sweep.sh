#!/bin/bash
# usage: tools/sweep.sh "1 2 3" [jobs]   - every quick check at the given seeds; prints one line per run
cd "$(dirname "$0")/.."
seeds=${1:-"1 2 3"}; jobs=${2:-2}
for s in $seeds; do for i in $(seq -w 1 19); do echo "$s C$i"; done; done | \
 xargs -P $jobs -L 1 bash -c 'VERIF_SEED=$0 /venv/bin/python run_check.py $1 --tier quick --no-evidence 2>&1 | grep -v "^state\." | grep -E "tier=|VIOLATION|HARNESS|violation in" | sed "s/^/seed=$0 /"'
