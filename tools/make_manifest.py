#!/usr/bin/env python3
"""Regenerates MANIFEST.json from the table below (keeps it schema-valid)."""
import json
import os

VERIF = os.path.dirname(os.path.dirname(os.path.abspath(__file__)))
PY = "/venv/bin/python"

# property -> (technique, level text, level note, design ref)
CHECKS = {
    "C01": ("property-based testing (Hypothesis): generated component programs vs independent wire-matrix reference model",
            "Generated-input search: thousands of component programs (all kinds, boundary-weighted values) whose U/U_full are compared entry-wise with an independently written ordered-product model; unitarity, dimension and leading-block clauses asserted directly. Exploration, not proof: sizes <= 7 modes / 40 ops.",
            "Trusts numpy linear algebra and the reference model's self-tests; entries compared at 1e-9 (1e-6 only when a beam splitter lies within 1e-6 of full reflection, where arccos is ill-conditioned, DESIGN 7.2), unitarity of U_full at 1e-9; circuits of 31-40 modes included; a complete sweep of all short programs over a small alphabet is exhaustive.", "3/C01"),
    "C02": ("property-based testing (Hypothesis) of circuit-addition trees vs wire-level reference model, plus exhaustive enumeration of two-addition placements",
            "Generated trees of additions (nesting <= 3, heralds with in != out, any declaration order, lossy shorthands) compared through heralded transition amplitudes with a reference model that implements the C02 wording; a finite core of two successive heralded additions is enumerated exhaustively.",
            "Trusts own permanent (self-tested against the n! definition) and numpy; compares visible behaviour only; mode arguments also given as numpy integers; groups nested inside groups with ancillas at both levels have their own generator.", "3/C02"),
}

CHECKS["C03"] = ("property-based testing (Hypothesis): Simulator amplitudes vs own Ryser permanent on the real full unitary; generated invalid inputs must be rejected",
    "Generated circuits (loss, nested heralded additions, heralds with photons on arbitrary in/out modes) x generated Fock inputs/outputs (bunched, vacuum, lists); every returned amplitude compared with an independent permanent formula; invalid-input generator asserts rejection with the documented exception family.",
    "Trusts own permanent (self-tested) and numpy; tolerance 1e-9; sizes <= 6 visible modes, <= 4 photons in general, up to 16 photons on two modes against exact rational arithmetic; circuits with every mode heralded included.", "3/C03")
CHECKS["C04"] = ("property-based testing (Hypothesis): Sampler / Backend distributions vs exact marginalised Fock distribution from own permanent, differential between the two backends",
    "Generated lossy/lossless/heralded circuits and inputs; each backend's distribution compared pattern by pattern with an exact reference (loss modes traced out), normalisation, non-negativity and photon-number bound asserted, and the two backends compared with each other.",
    "Trusts own permanent and Fock enumeration; many-loss-element circuits use a Halmos dilation of the n x n transfer matrix (no loss modes enumerated); tolerance = documented 1e-9 truncation per detected pattern plus 1e-9 arithmetic.", "3/C04")

CHECKS["C05"] = ("property-based testing (Hypothesis): differential relations between Simulator/Sampler/Analyzer/QuickSampler plus exact reference distribution from own permanent",
    "Generated circuits with heralds (photons, in != out modes, nested ancillas), loss, post-selection objects/predicates, expected mappings in any order and both QuickSampler detector modes; every clause of C05 is evaluated against an exact distribution computed independently and against the other objects; qubit-library circuits are a second generator.",
    "Trusts own permanent/Fock enumeration and own evaluation of post-selection descriptions; truncation tolerance 1e-9 per pattern as documented; QuickSampler compared only when the accepted mass exceeds 1e-7; expected outputs are treated as a set.", "3/C05")
CHECKS["C06"] = ("property-based testing (Hypothesis): Sampler distribution under imperfect Source vs own per-photon six-outcome mixture model; closed forms for g2, HOM visibility, classical limit",
    "Generated source parameters (boundary-weighted), inputs (bunched, herald photons), lossy/lossless circuits, both backends; distribution compared with an independently written mixture-of-distinguishable-groups model; closed-form metamorphic relations checked separately.",
    "Trusts own permanent and the documented per-photon coefficients; emission configurations are merged by physical equivalence (partition into distinguishability groups) before thresholding.", "3/C06")

CHECKS["C07"] = ("property-based testing (Hypothesis): every sampling method vs exact detected/heralded/post-selected reference distribution; deterministic per-sample predicates plus Pearson chi-square at p < 1e-9",
    "Generated circuits, inputs, detector settings, post-selection, min_detection, N and seeds for the five sampling methods; each returned state is checked deterministically (length, heralds removed, predicates, support), counts and the accepted fraction statistically against an exact reference built from own permanent and own detector model; seed reproducibility and sample counts asserted exactly.",
    "Convergence clause is statistical (bias below ~3 sigma/sqrt(N) invisible; runs of 2-4 million samples over 50-200 outcomes make over-dispersion visible too); seeded calls are repeated in a second interpreter with another hash salt; chi-square approximation with pooled cells; scipy.stats.chi2 trusted; frequencies of sample_N_outputs compared only when the accepted mass is >= 1e-5 (below that the documented truncation is not small against it).", "3/C07")
CHECKS["C08"] = ("stateful property-based testing (Hypothesis RuleBasedStateMachine): snapshots of every pooled circuit/state compared after each generated API call, including generated rejected calls",
    "Histories of up to 25/40 calls over a pool of circuits (add, +, copy, edits, rewrites, simulate/sample/analyse/Reck/display/tomography/qiskit conversion, rejected calls); invariant after every step: nobody but the receiver of a successful mutating call changes, a raising call changes nothing, module-level gate tables unchanged.",
    "Observable state = (n_modes, input_modes, heralds, U_full bytes, spec length, internal modes); tomography experiments are fed fake counts (only argument immutability is asserted there).", "3/C08")
CHECKS["C09"] = ("property-based testing (Hypothesis): generated rewrite sequences on generated circuits, before/after comparison of U_full/heralds plus structural post-conditions and independence of copies",
    "Generated circuits (all component kinds, groups, heralded groups, parameters) and a swap-heavy generator; after each of 1-4 generated rewrites the full unitary, heralds, input size are compared with the original, post-conditions asserted, an earlier copy must stay untouched and later edits of either object must not leak.",
    "Metamorphic oracle on the real objects; numpy trusted; tolerance 1e-9; Parameters must stay live through every rewrite except freezing.", "3/C09")
CHECKS["C10"] = ("stateful property-based testing (Hypothesis RuleBasedStateMachine) against a dict model of parameter values/bounds; circuit unitaries compared differentially with a from-scratch rebuild using plain values",
    "Histories interleaving parameter creation, valid/invalid value and bound updates, ParameterDict operations, circuit construction with parameters in every slot kind (also inside sub-circuits, reused), copying and freezing; after every step model agreement, bounds invariant, live/frozen unitaries, parameter listing and CircuitCompilationError for invalid values are asserted.",
    "Value domain finite numbers and strings (no NaN/inf); plain-value semantics decided by C01/C02.", "3/C10")
CHECKS["C11"] = ("stateful property-based testing (Hypothesis RuleBasedStateMachine): long-lived Sampler/QuickSampler/Analyzer compared after every read with freshly constructed objects of the same configuration",
    "Histories of reconfigurations (circuit reassignment incl. same components with different heralding, in-place circuit edits, parameters, input, source, backend, post-selection, detector) interleaved with distribution reads, seeded sampling, sample() and analyses; every read must equal what a fresh object returns (distribution, seeded samples, result attributes, or the same exception type).",
    "Differential oracle (fresh object) - exactness of the fresh object's answers is decided by C04-C07; calls on the long-lived objects run under a 60 s CPU-time guard (a call that does not return is reported); what a read returned may be edited by the caller.", "3/C11")

CHECKS["C12"] = ("property-based testing (Hypothesis): generated qiskit circuits converted and compared, amplitude by amplitude (own permanent), with qiskit's Operator up to one common scalar; refusals classified",
    "Generated qiskit circuits over the full supported gate set on 2-4 qubits (any qubit pairs/triples, either order, both post-selection modes, forced patterns of three-qubit gates followed by two-qubit gates and swaps between entangling gates); accepted amplitudes for every basis input must be k x Operator(qc) with the stated |k|^2, nothing accepted outside the qubit subspace; a refusal must be a ValueError in a legitimate class.",
    "qiskit.quantum_info.Operator is the reference; own permanent; at most 3 heralded gates per circuit (5-6 qubit layered circuits: at most 10 photons, a generated subset of 8 basis inputs when more than 8); circuits built from several quantum registers included; a conversion that does not return within 10 s of CPU time is reported as a violation (hang).", "3/C12")
CHECKS["C13"] = ("exhaustive enumeration of the finite gate/option/mode-pair table plus property-based testing (Hypothesis) of rotation angles; amplitudes from own permanent vs Kronecker-algebra gate matrices",
    "Every named gate and option, all 360 (1680) SWAP mode-pair placements and the invalid options are enumerated completely; rotation angles are generated; each amplitude matrix must be k x the named matrix with the stated |k|^2, heralded gates must not leak outside the qubit subspace, Simulator agrees on all basis inputs.",
    "Standard gate definitions; own permanent; finite part exhaustive, angles sampled (incl. up to 1e13 and all multiples of pi/4), SWAP rails sampled within 70 modes.", "3/C13")
CHECKS["C14"] = ("property-based testing (Hypothesis): structured and random unitaries / heralded lossless circuits mapped through Reck; reconstruction, phase range, error-model bounds and seed reproducibility asserted",
    "Generated unitaries of 11 structured kinds and products (exact and near zeros), generated heralded circuits, generated error models (Constant/Gaussian/TopHat per quantity) and seeds; mapped circuit structure, unitary equality, herald equality, phase range, bounds of every drawn value, identical circuit for identical seed, (sub-)unitarity.",
    "Lossless circuits only (zero-valued loss elements and Unitary objects extended after construction included); noisy maps repeated in a second interpreter with another hash salt; Gaussian bounds keep >= 0.3 sigma each side; phase interval closed at float(2 pi); unitaries rounded to 10-11 decimals are used when lightworks itself accepts them as unitary.", "3/C14")
CHECKS["C15"] = ("property-based testing (Hypothesis): generated dual-rail preparation circuits, exact noiseless experiment callback (own permanent), reconstruction compared with Kronecker-algebra state; requested circuits matched bijectively to measurement settings",
    "Generated base circuits on 1-3 qubits (arbitrary local unitaries, library gates, post-selected and heralded entangling gates); density matrix, Hermiticity, trace, fidelity, the exact set of requested circuits (3^n, bijective, base followed by basis changes), base circuit unchanged, and a second process() after an in-place edit; thorough tier varies PYTHONHASHSEED per shard.",
    "Exact outcome weights are passed as counts, also with last-digit rounding variations; post-selected gates are only followed by local gates; base circuits with heralds declared directly on them included.", "3/C15")
CHECKS["C16"] = ("property-based testing (Hypothesis): generated one- and two-qubit unitaries realised with library gates; LI / MLE / gate-fidelity results on exact noiseless data vs choi_from_unitary, its independent definition and the average-gate-fidelity formula",
    "Generated products of arbitrary single-qubit unitaries, CZ/CNOT (both orientations, post-selected and heralded) and SWAP; LI Choi entry-wise, MLE positivity / trace preservation / fidelity >= 0.99, gate fidelity against V and against generated other targets, choi_from_unitary against its definition.",
    "V from plain Kronecker algebra; exact callback from own permanent; MLE read at the property's 0.99.", "3/C16")
CHECKS["C17"] = ("property-based testing (Hypothesis): generated result containers and mapping sequences vs a Python dictionary model",
    "Generated SimulationResult / SamplingResult contents (distinct states, zeros, empty rows, complex amplitudes) and sequences of 1-3 mappings applied to the previous result and to the untouched original; indexing consistency, model agreement per image, conserved totals, source object unchanged, refusal for amplitudes, key errors.",
    "Pure-Python model of the per-mode functions; 1e-12 relative tolerance.", "3/C17")
CHECKS["C18"] = ("property-based testing (Hypothesis) plus exhaustive sweep over small states: State / AnnotatedState algebra vs list model, aliasing probes, herald insert/remove round trip, unit conversions, seeded random matrices",
    "Generated occupation lists, label lists, slices, herald dictionaries in any key order and position, dB / decimal values, seeds and dimensions; equality/hash, concatenation, merge laws, slicing, count consistency, rejection of mutation, absence of aliasing through every accessor, herald round trip, conversion inverses, validity and reproducibility of random unitaries/permutations.",
    "Integer occupations only; State(list) sharing the caller's list is out of scope.", "3/C18")
CHECKS["C19"] = ("property-based testing (Hypothesis): generated circuits x generated display options through both back-ends; no exception, well-formed output, circuit snapshot unchanged, DisplayError for invalid options",
    "Generated circuits of every constructible shape (groups, nested heralded groups, empty barriers, parameters with unicode/long labels, descending and non-adjacent beam splitters, qubit-library gates) with all option combinations; svg output must parse as XML, mpl must return (Figure, Axes), the circuit and its parameters must be unchanged, wrong label counts and unknown types must raise DisplayError.",
    "Nothing is rasterised; visual correctness of the drawing is not asserted.", "3/C19")

NOT_YET = {}


def main():
    props = [json.loads(l)["id"] for l in open(os.path.join(VERIF, "properties.jsonl"))]
    checks = []
    for pid in props:
        if pid not in CHECKS:
            continue
        tech, text, note, ref = CHECKS[pid]
        checks.append({
            "property_id": pid,
            "quick_cmd": f"{PY} run_check.py {pid} --tier quick",
            "thorough_cmd": f"{PY} run_check.py {pid} --tier thorough",
            "evidence_file": f"/verif/evidence/{pid}.json",
            "replay_cmd_template": f"{PY} run_check.py {pid} --replay {{path}}",
            "engine": "hypothesis-harness",
            "level_claimed": {"category": "exploration", "text": text, "design_ref": f"DESIGN.md section {ref}"},
            "level_note": note,
            "technique": tech,
        })
    na = [{"property_id": p, "reason": NOT_YET.get(p, "check under construction in this round; design in DESIGN.md section 3")}
          for p in props if p not in CHECKS]
    m = {
        "version": 1,
        "setup_cmd": f"{PY} -c \"import hypothesis\" 2>/dev/null || /venv/bin/pip install --no-index --find-links /opt/veriftools/wheels hypothesis",
        "hooks": {
            "guard": "LIGHTWORKS_VERIF",
            "enable": "no hooks are needed: all observation points are public API plus read-only private accessors; checks import lightworks straight from /repo's working tree (pure Python, nothing to build)",
            "baseline_off_cmd": "cd /repo && /venv/bin/python -m pytest -q -p no:cacheprovider --timeout=900",
            "source_commits": [],
            "add_only": True,
        },
        "engines": [{
            "name": "hypothesis-harness", "path": "/verif/run_check.py",
            "serves_properties": [c["property_id"] for c in checks],
            "kind_free_text": "Hypothesis 6.168 property-based tests and rule-based state machines driven by vlib/harness.py (seeding from VERIF_SEED, sharding over processes, shrinking, replay files, evidence), oracles from the independent reference model vlib/refmodel.py",
        }],
        "checks": checks,
        "notes": "Run from /verif. VERIF_SEED selects the Hypothesis seed (derived per shard and sub-check). Exit 0 held, 1 violation (VIOLATION line with replay file), 2 harness error. Genuine defects found and repaired are listed in known_findings.json as fixed entries.",
        "not_applicable": na,
    }
    with open(os.path.join(VERIF, "MANIFEST.json"), "w") as f:
        json.dump(m, f, indent=1)
    print("checks:", [c["property_id"] for c in checks], "n/a:", len(na))


if __name__ == "__main__":
    main()
