#!/usr/bin/env python3
"""Regenerates MANIFEST.json from the table below (keeps it schema-valid)."""
import json
import os

VERIF = os.path.dirname(os.path.dirname(os.path.abspath(__file__)))
PY = "/venv/bin/python"

# property -> (technique, level text, level note, design ref)
CHECKS = {
    "C01": ("property-based testing (Hypothesis): generated component programs vs independent wire-matrix reference model",
            "Generated-input search: thousands of component programs (all kinds, boundary-weighted values) whose U/U_full are compared entry-wise with an independently written ordered-product model; unitarity, dimension and leading-block clauses asserted directly. Exploration, not proof: sizes <= 7 modes / 40 ops.",
            "Trusts numpy linear algebra and the reference model's self-tests; tolerance 1e-9.", "3/C01"),
    "C02": ("property-based testing (Hypothesis) of circuit-addition trees vs wire-level reference model, plus exhaustive enumeration of two-addition placements",
            "Generated trees of additions (nesting <= 3, heralds with in != out, any declaration order, lossy shorthands) compared through heralded transition amplitudes with a reference model that implements the C02 wording; a finite core of two successive heralded additions is enumerated exhaustively.",
            "Trusts own permanent (self-tested against the n! definition) and numpy; compares visible behaviour only.", "3/C02"),
}

CHECKS["C03"] = ("property-based testing (Hypothesis): Simulator amplitudes vs own Ryser permanent on the real full unitary; generated invalid inputs must be rejected",
    "Generated circuits (loss, nested heralded additions, heralds with photons on arbitrary in/out modes) x generated Fock inputs/outputs (bunched, vacuum, lists); every returned amplitude compared with an independent permanent formula; invalid-input generator asserts rejection with the documented exception family.",
    "Trusts own permanent (self-tested) and numpy; tolerance 1e-9; sizes <= 6 visible modes, <= 4 photons.", "3/C03")
CHECKS["C04"] = ("property-based testing (Hypothesis): Sampler / Backend distributions vs exact marginalised Fock distribution from own permanent, differential between the two backends",
    "Generated lossy/lossless/heralded circuits and inputs; each backend's distribution compared pattern by pattern with an exact reference (loss modes traced out), normalisation, non-negativity and photon-number bound asserted, and the two backends compared with each other.",
    "Trusts own permanent and Fock enumeration; tolerance = documented 1e-9 truncation per full state.", "3/C04")

CHECKS["C05"] = ("property-based testing (Hypothesis): differential relations between Simulator/Sampler/Analyzer/QuickSampler plus exact reference distribution from own permanent",
    "Generated circuits with heralds (photons, in != out modes, nested ancillas), loss, post-selection objects/predicates, expected mappings in any order and both QuickSampler detector modes; every clause of C05 is evaluated against an exact distribution computed independently and against the other objects; qubit-library circuits are a second generator.",
    "Trusts own permanent/Fock enumeration and own evaluation of post-selection descriptions; truncation tolerance as documented; QuickSampler compared only when the accepted mass exceeds 1e-6.", "3/C05")
CHECKS["C06"] = ("property-based testing (Hypothesis): Sampler distribution under imperfect Source vs own per-photon six-outcome mixture model; closed forms for g2, HOM visibility, classical limit",
    "Generated source parameters (boundary-weighted), inputs (bunched, herald photons), lossy/lossless circuits, both backends; distribution compared with an independently written mixture-of-distinguishable-groups model; closed-form metamorphic relations checked separately.",
    "Trusts own permanent and the documented per-photon coefficients; emission configurations are merged by physical equivalence (partition into distinguishability groups) before thresholding.", "3/C06")

CHECKS["C07"] = ("property-based testing (Hypothesis): every sampling method vs exact detected/heralded/post-selected reference distribution; deterministic per-sample predicates plus Pearson chi-square at p < 1e-9",
    "Generated circuits, inputs, detector settings, post-selection, min_detection, N and seeds for the five sampling methods; each returned state is checked deterministically (length, heralds removed, predicates, support), counts and the accepted fraction statistically against an exact reference built from own permanent and own detector model; seed reproducibility and sample counts asserted exactly.",
    "Convergence clause is statistical (bias below ~3 sigma/sqrt(N) invisible); chi-square approximation with pooled cells; scipy.stats.chi2 trusted.", "3/C07")
CHECKS["C08"] = ("stateful property-based testing (Hypothesis RuleBasedStateMachine): snapshots of every pooled circuit/state compared after each generated API call, including generated rejected calls",
    "Histories of up to 25/40 calls over a pool of circuits (add, +, copy, edits, rewrites, simulate/sample/analyse/Reck/display/tomography/qiskit conversion, rejected calls); invariant after every step: nobody but the receiver of a successful mutating call changes, a raising call changes nothing, module-level gate tables unchanged.",
    "Observable state = (n_modes, input_modes, heralds, U_full bytes, spec length, internal modes); tomography experiments are fed fake counts (only argument immutability is asserted there).", "3/C08")
CHECKS["C09"] = ("property-based testing (Hypothesis): generated rewrite sequences on generated circuits, before/after comparison of U_full/heralds plus structural post-conditions and independence of copies",
    "Generated circuits (all component kinds, groups, heralded groups, parameters) and a swap-heavy generator; after each of 1-4 generated rewrites the full unitary, heralds, input size are compared with the original, post-conditions asserted, an earlier copy must stay untouched and later edits of either object must not leak.",
    "Metamorphic oracle on the real objects; numpy trusted; tolerance 1e-9.", "3/C09")
CHECKS["C10"] = ("stateful property-based testing (Hypothesis RuleBasedStateMachine) against a dict model of parameter values/bounds; circuit unitaries compared differentially with a from-scratch rebuild using plain values",
    "Histories interleaving parameter creation, valid/invalid value and bound updates, ParameterDict operations, circuit construction with parameters in every slot kind (also inside sub-circuits, reused), copying and freezing; after every step model agreement, bounds invariant, live/frozen unitaries, parameter listing and CircuitCompilationError for invalid values are asserted.",
    "Value domain finite numbers and strings (no NaN/inf); plain-value semantics decided by C01/C02.", "3/C10")
CHECKS["C11"] = ("stateful property-based testing (Hypothesis RuleBasedStateMachine): long-lived Sampler/QuickSampler/Analyzer compared after every read with freshly constructed objects of the same configuration",
    "Histories of reconfigurations (circuit reassignment incl. same components with different heralding, in-place circuit edits, parameters, input, source, backend, post-selection, detector) interleaved with distribution reads, seeded sampling, sample() and analyses; every read must equal what a fresh object returns (distribution, seeded samples, result attributes, or the same exception type).",
    "Differential oracle (fresh object) - exactness of the fresh object's answers is decided by C04-C07.", "3/C11")

NOT_YET = {}


def main():
    props = [json.loads(l)["id"] for l in open(os.path.join(VERIF, "properties.jsonl"))]
    checks = []
    for pid in props:
        if pid not in CHECKS:
            continue
        tech, text, note, ref = CHECKS[pid]
        checks.append({
            "property_id": pid,
            "quick_cmd": f"{PY} run_check.py {pid} --tier quick",
            "thorough_cmd": f"{PY} run_check.py {pid} --tier thorough",
            "evidence_file": f"/verif/evidence/{pid}.json",
            "replay_cmd_template": f"{PY} run_check.py {pid} --replay {{path}}",
            "engine": "hypothesis-harness",
            "level_claimed": {"category": "exploration", "text": text, "design_ref": f"DESIGN.md section {ref}"},
            "level_note": note,
            "technique": tech,
        })
    na = [{"property_id": p, "reason": NOT_YET.get(p, "check under construction in this round; design in DESIGN.md section 3")}
          for p in props if p not in CHECKS]
    m = {
        "version": 1,
        "setup_cmd": f"{PY} -c \"import hypothesis\" 2>/dev/null || /venv/bin/pip install --no-index --find-links /opt/veriftools/wheels hypothesis",
        "hooks": {
            "guard": "LIGHTWORKS_VERIF",
            "enable": "no hooks are needed: all observation points are public API plus read-only private accessors; checks import lightworks straight from /repo's working tree (pure Python, nothing to build)",
            "baseline_off_cmd": "cd /repo && /venv/bin/python -m pytest -q -p no:cacheprovider --timeout=900",
            "source_commits": [],
            "add_only": True,
        },
        "engines": [{
            "name": "hypothesis-harness", "path": "/verif/run_check.py",
            "serves_properties": [c["property_id"] for c in checks],
            "kind_free_text": "Hypothesis 6.168 property-based tests and rule-based state machines driven by vlib/harness.py (seeding from VERIF_SEED, sharding over processes, shrinking, replay files, evidence), oracles from the independent reference model vlib/refmodel.py",
        }],
        "checks": checks,
        "notes": "Run from /verif. VERIF_SEED selects the Hypothesis seed (derived per shard and sub-check). Exit 0 held, 1 violation (VIOLATION line with replay file), 2 harness error. Genuine defects found and repaired are listed in known_findings.json as fixed entries.",
        "not_applicable": na,
    }
    with open(os.path.join(VERIF, "MANIFEST.json"), "w") as f:
        json.dump(m, f, indent=1)
    print("checks:", [c["property_id"] for c in checks], "n/a:", len(na))


if __name__ == "__main__":
    main()
