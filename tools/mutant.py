#!/usr/bin/env python3
"""Sensitivity testing: run checks against a scratch copy of /repo with a patch applied.

  tools/mutant.py <patch> <Cxx> [<Cxx> ...] [--reverse] [--tier quick] [--seed N]

The scratch copy lives under /tmp and is removed afterwards; /repo is never touched.
Exit status 0 when every listed check reported a violation (mutant killed)."""
import argparse
import os
import shutil
import subprocess
import sys
import tempfile

VERIF = os.path.dirname(os.path.dirname(os.path.abspath(__file__)))


def main() -> int:
    ap = argparse.ArgumentParser()
    ap.add_argument("patch")
    ap.add_argument("props", nargs="+")
    ap.add_argument("--reverse", action="store_true")
    ap.add_argument("--tier", default="quick")
    ap.add_argument("--seed", default="1")
    ap.add_argument("--only")
    a = ap.parse_args()
    tmp = tempfile.mkdtemp(prefix="verif_mut_")
    try:
        shutil.copytree("/repo/lightworks", os.path.join(tmp, "lightworks"),
                        ignore=shutil.ignore_patterns("__pycache__"))
        cmd = ["patch", "-p1", "-s", "-d", tmp, "-i", os.path.abspath(a.patch)]
        if a.reverse:
            cmd.insert(1, "-R")
        r = subprocess.run(cmd, capture_output=True, text=True)
        if r.returncode != 0:
            print("patch failed:", r.stdout, r.stderr)
            return 2
        env = dict(os.environ, VERIF_REPO=tmp, VERIF_SEED=a.seed,
                   VERIF_REPLAY_DIR=os.path.join(tmp, "replays"), PYTHONHASHSEED="0")
        killed_all = True
        for p in a.props:
            cmd = [sys.executable, os.path.join(VERIF, "run_check.py"), p, "--tier", a.tier,
                   "--no-evidence"]
            if a.only:
                cmd += ["--only", a.only]
            r = subprocess.run(cmd, env=env, capture_output=True, text=True)
            lines = [l for l in r.stdout.splitlines() if l.startswith(("violation", "VIOLATION", p))]
            status = {0: "SURVIVED", 1: "KILLED", 2: "HARNESS-ERROR"}.get(r.returncode, str(r.returncode))
            print(f"[{status}] {os.path.basename(a.patch)}{' (reversed)' if a.reverse else ''} vs {p}")
            for l in lines[:6]:
                print("    " + l[:300])
            if r.returncode == 2:
                print(r.stderr[-2000:])
            killed_all &= r.returncode == 1
        return 0 if killed_all else 1
    finally:
        shutil.rmtree(tmp, ignore_errors=True)


if __name__ == "__main__":
    sys.exit(main())
