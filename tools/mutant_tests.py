#!/usr/bin/env python3
"""Does the repository's own test-suite notice a mutant?  (for the sensitivity table)
  tools/mutant_tests.py <patch> [...]  -> prints 'tests-pass' or 'tests-fail' per patch; results/mutant_tests.json"""
import json
import os
import shutil
import subprocess
import sys
import tempfile

V = os.path.dirname(os.path.dirname(os.path.abspath(__file__)))


def main():
    out_path = os.path.join(V, "results", "mutant_tests.json")
    os.makedirs(os.path.dirname(out_path), exist_ok=True)
    res = json.load(open(out_path)) if os.path.exists(out_path) else {}
    for patch in sys.argv[1:]:
        name = os.path.basename(patch)[:-5]
        tmp = tempfile.mkdtemp(prefix="verif_mt_")
        try:
            for d in ("lightworks", "tests"):
                shutil.copytree(os.path.join("/repo", d), os.path.join(tmp, d),
                                ignore=shutil.ignore_patterns("__pycache__"))
            shutil.copy("/repo/pyproject.toml", tmp)
            r = subprocess.run(["patch", "-p1", "-s", "-d", tmp, "-i", os.path.abspath(patch)], capture_output=True)
            if r.returncode:
                res[name] = "patch-failed"
                continue
            env = dict(os.environ, PYTHONPATH=tmp, MPLBACKEND="Agg")
            r = subprocess.run(["/venv/bin/python", "-m", "pytest", "-q", "-p", "no:cacheprovider", "-x", "-n", "4",
                                "tests"], cwd=tmp, env=env, capture_output=True, text=True)
            tail = (r.stdout.strip().splitlines() or ["?"])[-1]
            res[name] = "tests-pass" if "663 passed" in tail else "tests-fail: " + tail[-80:]
            print(name, res[name], flush=True)
        finally:
            shutil.rmtree(tmp, ignore_errors=True)
        json.dump(res, open(out_path, "w"), indent=1, sort_keys=True)


if __name__ == "__main__":
    main()
