#!/usr/bin/env python3
"""Line coverage of /repo/lightworks reached by the quick tier (shard 0 of 4 of every check).

  tools/coverage_pass.py [--jobs 6] [Cxx ...]   -> results/coverage_quick.json (per file: missing lines)

Used to look for code in the anchored files that no generator reaches; it is a diagnostic for the
generators, not part of any registered check.
"""
import argparse
import concurrent.futures as cf
import json
import os
import shutil
import subprocess
import sys
import tempfile

VERIF = os.path.dirname(os.path.dirname(os.path.abspath(__file__)))
REPO = os.environ.get("VERIF_REPO", "/repo")


def run(prop, tmp):
    env = dict(os.environ, PYTHONHASHSEED="0", COVERAGE_FILE=os.path.join(tmp, f".cov.{prop}"), MPLBACKEND="Agg")
    cmd = [sys.executable, "-m", "coverage", "run", f"--source={REPO}/lightworks",
           os.path.join(VERIF, "run_check.py"), prop, "--tier", "quick", "--shard", "0", "--nshards", "4",
           "--out", os.path.join(tmp, f"{prop}.json")]
    r = subprocess.run(cmd, env=env, capture_output=True, text=True, cwd=VERIF)
    return prop, r.returncode, r.stderr[-400:]


def main():
    ap = argparse.ArgumentParser()
    ap.add_argument("--jobs", type=int, default=6)
    ap.add_argument("props", nargs="*")
    a = ap.parse_args()
    props = a.props or [f"C{i:02d}" for i in range(1, 20)]
    tmp = tempfile.mkdtemp(prefix="verif-cov-")
    try:
        with cf.ThreadPoolExecutor(a.jobs) as ex:
            for prop, rc, err in ex.map(lambda p: run(p, tmp), props):
                print(prop, "rc", rc, err if rc else "")
        env = dict(os.environ, COVERAGE_FILE=os.path.join(tmp, ".cov.all"))
        subprocess.run([sys.executable, "-m", "coverage", "combine"] +
                       [os.path.join(tmp, f".cov.{p}") for p in props], env=env, check=True, cwd=tmp,
                       capture_output=True)
        out = os.path.join(tmp, "cov.json")
        subprocess.run([sys.executable, "-m", "coverage", "json", "-o", out], env=env, check=True, cwd=tmp,
                       capture_output=True)
        data = json.load(open(out))
        res = {}
        for f, d in sorted(data["files"].items()):
            rel = os.path.relpath(f, REPO)
            res[rel] = {"percent": round(d["summary"]["percent_covered"], 1), "missing": d["missing_lines"]}
        res["_total_percent"] = round(data["totals"]["percent_covered"], 1)
        os.makedirs(os.path.join(VERIF, "results"), exist_ok=True)
        json.dump(res, open(os.path.join(VERIF, "results", "coverage_quick.json"), "w"), indent=0)
        print("total", res["_total_percent"])
    finally:
        shutil.rmtree(tmp, ignore_errors=True)


if __name__ == "__main__":
    main()
