#!/usr/bin/env python3
"""Create a mutant patch from string substitutions on a scratch copy of /repo/lightworks.

  tools/mkmutant.py <out.diff> <relpath> <old> <new> [<relpath> <old> <new> ...]
"""
import os
import shutil
import subprocess
import sys
import tempfile


def main():
    out = os.path.abspath(sys.argv[1])
    triples = sys.argv[2:]
    tmp = tempfile.mkdtemp(prefix="verif_mk_")
    try:
        a, b = os.path.join(tmp, "a"), os.path.join(tmp, "b")
        for d in (a, b):
            shutil.copytree("/repo/lightworks", os.path.join(d, "lightworks"),
                            ignore=shutil.ignore_patterns("__pycache__"))
        for i in range(0, len(triples), 3):
            rel, old, new = triples[i:i + 3]
            old = old.encode().decode("unicode_escape")
            new = new.encode().decode("unicode_escape")
            p = os.path.join(b, rel)
            s = open(p).read()
            if s.count(old) != 1:
                print(f"pattern occurs {s.count(old)} times in {rel}: {old!r}")
                return 1
            open(p, "w").write(s.replace(old, new))
        r = subprocess.run(["diff", "-ru", "a", "b"], cwd=tmp, capture_output=True, text=True)
        open(out, "w").write(r.stdout)
        print(f"wrote {out} ({len(r.stdout.splitlines())} lines)")
        return 0
    finally:
        shutil.rmtree(tmp, ignore_errors=True)


if __name__ == "__main__":
    sys.exit(main())
