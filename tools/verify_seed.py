#!/usr/bin/env python3
"""Independently confirm a sub-agent's seeded change and file it under /verif/seeded/<id>/.

  tools/verify_seed.py <Cxx> <a|b|...>     (worktree /tmp/wt_<Cxx>, deliverables in _seed/<x>/)
"""
import json
import os
import shutil
import subprocess
import sys

VERIF = os.path.dirname(os.path.dirname(os.path.abspath(__file__)))


def sh(cmd, cwd, env=None, timeout=1800):
    r = subprocess.run(cmd, shell=True, cwd=cwd, env=env, capture_output=True, text=True, timeout=timeout)
    return r.returncode, (r.stdout + r.stderr)


def main():
    prop, x = sys.argv[1], sys.argv[2]
    wt = sys.argv[3] if len(sys.argv) > 3 else f"/tmp/wt_{prop}"
    seed = f"{wt}/_seed/{x}"
    env = dict(os.environ, PYTHONPATH=wt, MPLBACKEND="Agg")
    sh("git checkout -- lightworks", wt)
    rc, out = sh(f"git apply {seed}/patch.diff", wt)
    if rc:
        print("patch does not apply:", out); return 1
    rc_t, out_t = sh("/venv/bin/python -m pytest -q -p no:cacheprovider -x -n 8 2>&1 | tail -1", wt, env)
    tests_ok = "663 passed" in out_t
    rc_d1, out_d1 = sh(f"/venv/bin/python {seed}/demo.py", wt, env)
    sh("git checkout -- lightworks", wt)
    rc_d0, out_d0 = sh(f"/venv/bin/python {seed}/demo.py", wt, env)
    ok = tests_ok and rc_d1 != 0 and rc_d0 == 0
    print(f"{prop}{x}: tests_pass_with_change={tests_ok} ({out_t.strip()[-60:]}) demo_with_change_rc={rc_d1} "
          f"demo_clean_rc={rc_d0} -> {'CONFIRMED' if ok else 'REJECTED'}")
    if not ok:
        print(out_d1[-800:]); print(out_d0[-800:])
        return 1
    dst = os.path.join(VERIF, "seeded", f"{prop}{x}")
    os.makedirs(dst, exist_ok=True)
    shutil.copy(f"{seed}/patch.diff", dst)
    shutil.copy(f"{seed}/demo.py", dst)
    meta = {}
    try:
        meta = json.load(open(f"{seed}/meta.json"))
    except Exception:  # noqa: BLE001
        pass
    meta["property"] = prop
    meta["confirmed_by_me"] = {
        "ran": [
            f"git -C {wt} apply _seed/{x}/patch.diff",
            "PYTHONPATH=<worktree> /venv/bin/python -m pytest -q -p no:cacheprovider -x -n 8  -> 663 passed",
            f"PYTHONPATH=<worktree> /venv/bin/python demo.py -> exit {rc_d1} with the change",
            f"git checkout -- lightworks; demo.py -> exit {rc_d0} on the clean tree",
        ],
        "demo_output_with_change_tail": out_d1.strip()[-400:],
    }
    json.dump(meta, open(os.path.join(dst, "meta.json"), "w"), indent=1)
    return 0


if __name__ == "__main__":
    sys.exit(main())
