#!/usr/bin/env python3
"""Run the kill matrix: every seeded change / reverse-fix mutant / hand mutant against chosen checks.

  tools/run_seeded.py [--tier quick] [--jobs 4] [--seed 1] [--extra]   -> results/kill_matrix.json
"""
import argparse
import concurrent.futures as cf
import glob
import json
import os
import subprocess
import sys

VERIF = os.path.dirname(os.path.dirname(os.path.abspath(__file__)))
# which additional checks to try for a seeded change filed under another property
ALSO = {"C04a": ["C11"], "C05b": ["C11"], "C06b": ["C11"], "C07a": ["C11"], "C05c": ["C11"], "C07d": ["C11"],
        "C09d": ["C10"]}
FIX_PROPS = {"D1": ["C04", "C06"], "D2": ["C12"], "D3": ["C08"], "D4": ["C02"], "D5": ["C02"], "D6": ["C05"],
             "D7": ["C11", "C07"], "D9": ["C16"], "D10": ["C01"], "D11": ["C02", "C08"],
             "D12": ["C11"], "D13": ["C11"], "D14": ["C19"], "D15": ["C18"], "D17": ["C10"],
             "D18": ["C05"], "D19": ["C08"], "D20": ["C09"], "D21": ["C16"], "D22": ["C03", "C05"],
             "D23": ["C10", "C09"], "D24": ["C11"], "D25": ["C15"], "D26": ["C07"], "D28": ["C05"],
             "D29": ["C05"], "D30": ["C04"], "D31": ["C05"], "D32": ["C04"], "D33": ["C02"], "D34": ["C12"], "D35": ["C15"], "D36": ["C14"], "D37": ["C11"], "D38": ["C11"]}


def run(job):
    name, patch, prop, reverse, tier, seed = job
    cmd = [sys.executable, os.path.join(VERIF, "tools", "mutant.py"), patch, prop, "--tier", tier, "--seed", seed]
    if reverse:
        cmd.append("--reverse")
    r = subprocess.run(cmd, capture_output=True, text=True)
    first = (r.stdout.splitlines() or ["?"])[0]
    detail = (r.stdout.splitlines() + [""])[1].strip()[:220]
    status = "KILLED" if "[KILLED]" in first else "SURVIVED" if "[SURVIVED]" in first else "ERROR"
    return name, prop, status, detail


def main():
    ap = argparse.ArgumentParser()
    ap.add_argument("--tier", default="quick")
    ap.add_argument("--jobs", type=int, default=4)
    ap.add_argument("--seed", default="1")
    ap.add_argument("--only")
    a = ap.parse_args()
    jobs = []
    for d in sorted(glob.glob(os.path.join(VERIF, "seeded", "*"))):
        name = os.path.basename(d)
        props = [name[:3]] + ALSO.get(name, [])
        try:
            props += [p for p in json.load(open(os.path.join(d, "meta.json"))).get("also_check", []) if p not in props]
        except Exception:  # noqa: BLE001
            pass
        for p in props:
            jobs.append((name, os.path.join(d, "patch.diff"), p, False, a.tier, a.seed))
    for f in sorted(glob.glob(os.path.join(VERIF, "mutants", "fixes", "D*.diff"))):
        name = os.path.basename(f)[:-5]
        for p in FIX_PROPS.get(name, []):
            jobs.append((name + "-reversed", f, p, True, a.tier, a.seed))
    for f in sorted(glob.glob(os.path.join(VERIF, "mutants", "hand", "*.diff"))):
        name = os.path.basename(f)[:-5]
        for p in name.split("_")[0].split("+"):
            jobs.append((name, f, p, False, a.tier, a.seed))
    if a.only:
        pats = a.only.split(",")
        jobs = [j for j in jobs if any(o in j[0] or o == j[2] for o in pats)]
    results = []
    with cf.ThreadPoolExecutor(a.jobs) as ex:
        for name, prop, status, detail in ex.map(run, jobs):
            print(f"{status:9s} {name:22s} vs {prop}  {detail}")
            results.append({"mutant": name, "check": prop, "status": status, "detail": detail})
    os.makedirs(os.path.join(VERIF, "results"), exist_ok=True)
    out = os.path.join(VERIF, "results", f"kill_matrix_{a.tier}_seed{a.seed}.json")
    if not a.only:
        json.dump(results, open(out, "w"), indent=1)
    by = {}
    for r in results:
        by.setdefault(r["mutant"], []).append(r["status"])
    killed = sum(1 for v in by.values() if "KILLED" in v)
    print(f"mutants: {len(by)}  killed by at least one listed check: {killed}")


if __name__ == "__main__":
    main()
