#!/usr/bin/env python3
"""(Re)creates mutants/hand/*.diff - small plausible changes, one per file, named <Cxx[+Cyy]>_<slug>.diff."""
import os
import subprocess
import sys

V = os.path.dirname(os.path.dirname(os.path.abspath(__file__)))
L = "lightworks/"
M = [
 ("C01_bs-rx-sign", L+"sdk/circuit/components.py", "            unitary[self.mode_2, self.mode_1] = 1j * np.sin(theta)", "            unitary[self.mode_2, self.mode_1] = -1j * np.sin(theta)"),
 ("C01_perm-transposed", L+"sdk/utils/permutation_conversion.py", "permutation[j, i] = 1", "permutation[i, j] = 1"),
 ("C01_right-multiply", L+"sdk/circuit/compiler.py", "self._unitary = spec.get_unitary(self.total_modes) @ self._unitary", "self._unitary = self._unitary @ spec.get_unitary(self.total_modes)"),
 ("C01_loss-no-sqrt", L+"sdk/circuit/components.py", "unitary[self.mode, self.mode] = transmission**0.5", "unitary[self.mode, self.mode] = transmission"),
 ("C02_map-mode-gt", L+"sdk/circuit/circuit.py", "            if mode >= i:\\n                mode += 1", "            if mode > i:\\n                mode += 1"),
 ("C02_empty-mode-bs-gt", L+"sdk/circuit/circuit_utils.py", "spec.mode_2 += 1 if spec.mode_2 >= mode else 0\\n        elif isinstance(spec, Barrier):", "spec.mode_2 += 1 if spec.mode_2 > mode else 0\\n        elif isinstance(spec, Barrier):"),
 ("C02_add-mode-unitary-block", L+"sdk/utils/matrix_utils.py", "new_u[add_mode + 1 :, :add_mode] = unitary[add_mode:, :add_mode]", "new_u[add_mode + 1 :, :add_mode] = unitary[add_mode:, :add_mode].T if add_mode * 2 == dim - 1 else unitary[add_mode:, :add_mode]"),
 ("C03_missing-out-factorial", L+"emulator/backend/permanent.py", "np.sqrt(float(factor_m * factor_n))", "np.sqrt(float(factor_m))"),
 ("C03_out-heralds-from-input", L+"emulator/simulation/simulator.py", "out_state = add_heralds_to_state(outs, out_heralds)", "out_state = add_heralds_to_state(outs, in_heralds)"),
 ("C04_slos-missing-sqrt", L+"emulator/backend/slos.py", "updated_dist[tuple(key)] = key[mode] ** 0.5 * value * multiplier", "updated_dist[tuple(key)] = value * multiplier"),
 ("C06_pdist-assign", L+"emulator/simulation/probability_distribution.py", "                if s in pdist:\\n                    pdist[s] += p * prob", "                if s in pdist:\\n                    pdist[s] = p * prob"),
 ("C04_threshold-1e-3", L+"__settings.py", "1e-9", "1e-3"),
 ("C05_performance-sum", L+"emulator/simulation/analyzer.py", "self.performance = probs.sum() / len(full_inputs)", "self.performance = probs.sum()"),
 ("C05_error-rate-unnormalised", L+"emulator/simulation/analyzer.py", "error -= iprobs[loc] / sum(iprobs)", "error -= iprobs[loc]"),
 ("C05_qs-threshold-rejects-vacuum", L+"emulator/simulation/quick_sampler.py", "if max(s, default=0) <= 1]", "if max(s, default=0) == 1]"),
 ("C05_analyzer-ps-gets-list", L+"emulator/simulation/analyzer.py", "if self.post_selection.validate(State(state)):", "if self.post_selection.validate(state):"),
 ("C05_qs-out-heralds-from-input", L+"emulator/simulation/quick_sampler.py", 'out_heralds = self.circuit.heralds["output"]', 'out_heralds = self.circuit.heralds["input"]'),
 ("C06_indist-no-sqrt", L+"emulator/components/source.py", "p_i = self.indistinguishability**0.5", "p_i = self.indistinguishability"),
 ("C06_noise-coefficients-swapped", L+"emulator/components/source.py", "c12d = nu**2 * p_i * p2\\n        c1d2d = nu**2 * p_d * p2", "c12d = nu**2 * p_d * p2\\n        c1d2d = nu**2 * p_i * p2"),
 ("C07_efficiency-inverted", L+"emulator/components/detector.py", "if random() > self.efficiency:", "if random() < self.efficiency:"),
 ("C07_min-detection-gt", L+"emulator/simulation/sampler.py", "if post_select.validate(hs) and hs.n_photons >= min_detection:", "if post_select.validate(hs) and hs.n_photons > min_detection:"),
 ("C07_threshold-gt1", L+"emulator/components/detector.py", "output = [1 if count >= 1 else 0 for count in output]", "output = [1 if count > 1 else 0 for count in output]"),
 ("C07_n-outputs-min-detection-gt", L+"emulator/simulation/sampler.py", "if new_s.n_photons >= min_detection and post_select.validate(", "if new_s.n_photons > min_detection and post_select.validate("),
 ("C07_dark-before-efficiency-off", L+"emulator/components/detector.py", "if random() < self.p_dark:", "if random() < self.p_dark and output[mode] == 0:"),
 ("C08+C09_copy-aliases-spec", L+"sdk/circuit/circuit.py", "new_circ.__circuit_spec = copy(self.__circuit_spec)", "new_circ.__circuit_spec = self.__circuit_spec"),
 ("C08_shift-in-place", L+"sdk/circuit/circuit_utils.py", "    new_circuit_spec = []\\n    for spec in circuit_spec:\\n        spec = copy(spec)\\n        if isinstance(spec, BeamSplitter):\\n            spec.mode_1 += mode", "    new_circuit_spec = []\\n    for spec in circuit_spec:\\n        if isinstance(spec, BeamSplitter):\\n            spec.mode_1 += mode"),
 ("C09_compress-loss-not-blocking", L+"sdk/circuit/circuit_utils.py", "if isinstance(spec2, PhaseShifter | Loss):", "if isinstance(spec2, PhaseShifter):"),

 ("C09_combine-order", L+"sdk/circuit/circuit_utils.py", "new_swaps = combine_mode_swap_dicts(spec.swaps, swaps)", "new_swaps = combine_mode_swap_dicts(swaps, spec.swaps)"),
 ("C10_min-bound-le", L+"sdk/circuit/parameters.py", "            if value < self.min_bound:\\n                raise ParameterValueError", "            if value <= self.min_bound:\\n                raise ParameterValueError"),
 ("C10_params-not-in-groups", L+"sdk/circuit/circuit.py", "for spec in unpack_circuit_spec(self.__circuit_spec):\\n            for p in spec.values():", "for spec in self.__circuit_spec:\\n            for p in spec.values():"),
 ("C10_loss-param-unvalidated", L+"sdk/circuit/components.py", '        self.validate()\\n        transmission = 1 - self._loss', '        transmission = 1 - self._loss'),
 ("C11_key-without-brightness", L+"emulator/simulation/sampler.py", '            "brightness",\\n            "purity",', '            "purity",'),
 ("C11_qs-key-without-pc", L+"emulator/simulation/quick_sampler.py", "            post_select_rules,\\n            self.photon_counting,\\n            self.circuit.heralds,", "            post_select_rules,\\n            self.circuit.heralds,"),
 ("C11_backend-not-in-key", L+"emulator/simulation/sampler.py", "vals = [self.__circuit.U_full, self.input_state, self.backend.backend]", "vals = [self.__circuit.U_full, self.input_state]"),
 ("C12_cx-target", L+"qubit/converter/qiskit_convert.py", "target = q1 - min([q0, q1])", "target = q0 - min([q0, q1])"),
 ("C12_tdg-is-t", L+"qubit/converter/qiskit_convert.py", '"tdg": Tadj(),', '"tdg": T(),'),
 ("C12_swaps-not-undone", L+"qubit/converter/qiskit_convert.py", "            self.circuit.add(add_circ, add_mode)\\n            for swap_qs in to_swap:\\n                self._add_two_qubit_gate(\"swap\", swap_qs[0], swap_qs[1])", "            self.circuit.add(add_circ, add_mode)\\n            for swap_qs in to_swap[:1]:\\n                self._add_two_qubit_gate(\"swap\", swap_qs[0], swap_qs[1])"),
 ("C13_sadj-is-s", L+"qubit/gates/single_qubit_gates.py", "unitary = np.array([[1, 0], [0, -1j]])", "unitary = np.array([[1, 0], [0, 1j]])"),

 ("C13_rz-sign", L+"qubit/gates/single_qubit_gates.py", "np.exp(-1j * theta / 2)", "np.exp(1j * theta / 2)"),
 ("C14_end-phase-no-mod", L+"interferometers/reck.py", "            (p + self.error_model.get_phase_offset()) % (2 * np.pi)\\n            for p in end_phases", "            (p + self.error_model.get_phase_offset())\\n            for p in end_phases"),
 ("C14_heralds-swapped", L+"interferometers/reck.py", 'mapped_circuit.herald(heralds["input"][m1], m1, m2)', 'mapped_circuit.herald(heralds["input"][m1], m2, m1)'),
 ("C14_gaussian-and", L+"interferometers/dists/gaussian.py", "while val < self._min_value or val > self._max_value:", "while val < self._min_value and val > self._max_value:"),
 ("C14_tophat-seed-ignored", L+"interferometers/dists/top_hat.py", "        self._rng = random.default_rng(seed)", "        self._rng = random.default_rng()"),
 ("C15_y-measure-s", L+"tomography/mappings.py", "_y_measure.add(qubit.S())", "_y_measure.add(qubit.Sadj())"),
 ("C15_missing-normalisation", L+"tomography/utils.py", "        expectation /= 2**n_qubits\\n", "        expectation /= 2 ** (n_qubits - 1) if n_qubits > 2 else 2**n_qubits\\n"),
 ("C15_experiment-args-reversed", L+"tomography/state_tomography.py", "            circuits,\\n            *(self.experiment_args if self.experiment_args is not None else []),", "            circuits,\\n            *(reversed(self.experiment_args) if self.experiment_args is not None else []),"),
 ("C16_experiment-args-dropped-when-one", L+"tomography/process_tomography.py", "            *(self.experiment_args if self.experiment_args is not None else []),", "            *(self.experiment_args if self.experiment_args is not None and len(self.experiment_args) != 1 else []),"),
 ("C16_gf-dim", L+"tomography/gate_fidelity.py", "(total + dim**2) / (dim**2 * (dim + 1))", "(total + dim**2) / (dim**2 * (dim + 1)) if dim == 2 else (total + dim) / (dim * (dim + 1))"),
 ("C16_rho-y-sign", L+"tomography/mappings.py", '"Y+": np.array([[1, -1j], [1j, 1]]) / 2,', '"Y+": np.array([[1, 1j], [-1j, 1]]) / 2,'),
 ("C17_threshold-assign", L+"emulator/results/simulation_result.py", "                new_s = State([1 if s >= 1 else 0 for s in out_state])\\n                if invert:\\n                    new_s = State([1 - s for s in new_s])\\n                if new_s in mapped_result[in_state]:\\n                    mapped_result[in_state][new_s] += val", "                new_s = State([1 if s >= 1 else 0 for s in out_state])\\n                if invert:\\n                    new_s = State([1 - s for s in new_s])\\n                if new_s in mapped_result[in_state]:\\n                    mapped_result[in_state][new_s] = val"),
 ("C17_sampling-parity-invert-ignored", L+"emulator/results/sampling_result.py", "new_s = State([1 - (s % 2) for s in out_state])", "new_s = State([(s + 2) % 2 for s in out_state])"),
 ("C18_state-s-alias", L+"sdk/state/state.py", '        """Returns a copy of the contents of the state as a list."""\\n        return copy(self.__s)', '        """Returns a copy of the contents of the state as a list."""\\n        return self.__s'),
 ("C18_remove-heralds-ascending", L+"sdk/utils/heralding_utils.py", "to_remove = sorted(herald_modes, reverse=True)", "to_remove = sorted(herald_modes)"),
 ("C18_db-sign", L+"sdk/utils/conversion.py", "loss = -abs(loss)", "loss = -loss"),
 ("C18_hash-includes-id", L+"sdk/state/state.py", "return hash(self.__str__())", "return hash((self.__str__(), len(self.__s) > 6 and id(self)))"),
 ("C19_label-check-lt", L+"sdk/visualisation/draw_circuit_svg.py", "if len(mode_labels) != exp_len:", "if len(mode_labels) < exp_len:"),
 ("C19_param-value-returns-param", L+"sdk/visualisation/display_utils.py", "    if show_parameter_value:\\n        return value.get()", "    if show_parameter_value:\\n        return value"),
]


def main():
    out_dir = os.path.join(V, "mutants", "hand")
    os.makedirs(out_dir, exist_ok=True)
    bad = 0
    for name, rel, old, new in M:
        r = subprocess.run([sys.executable, os.path.join(V, "tools", "mkmutant.py"),
                            os.path.join(out_dir, name + ".diff"), rel, old, new], capture_output=True, text=True)
        if r.returncode:
            bad += 1
            print(name, r.stdout.strip()[:200])
    print(f"{len(M) - bad} mutants written, {bad} failed")


if __name__ == "__main__":
    main()
