"""Post-selection descriptions: JSON form, real object, and own evaluator."""
from hypothesis import strategies as st


@st.composite
def post_selection(draw, n_modes, max_photons):
    """None | {"rules": [[modes, counts], ...]} | {"pred": [...]}"""
    kind = draw(st.integers(0, 4))
    if kind == 0 or n_modes == 0:
        return None
    if kind == 4:
        # several rules may share modes (multi_rules=True), also on exactly the same mode tuple
        rules = []
        for _ in range(draw(st.integers(2, 3))):
            if rules and draw(st.booleans()):
                modes = list(rules[-1][0])
            else:
                size = min(n_modes, draw(st.sampled_from([1, 1, 2, 3])))     # several rules on one single mode too
                modes = sorted(draw(st.lists(st.integers(0, n_modes - 1), unique=True, min_size=size,
                                             max_size=size)))
            counts = draw(st.lists(st.integers(0, max(1, max_photons)), unique=True, min_size=1, max_size=3))
            rules.append([modes, sorted(counts)])
        return {"rules": rules, "multi": True}
    if kind in (1, 2):
        rules = []
        free = list(range(n_modes))
        for _ in range(draw(st.integers(1, 3))):
            if not free:
                break
            modes = draw(st.lists(st.sampled_from(free), unique=True, min_size=1,
                                  max_size=min(3, len(free))))
            for m in modes:
                free.remove(m)
            counts = draw(st.lists(st.integers(0, max(1, max_photons)), unique=True,
                                   min_size=1, max_size=2))
            rules.append([sorted(modes), sorted(counts)])
        return {"rules": rules, "multi": False}
    pk = draw(st.sampled_from(["max-le", "mode-ne", "total-in", "state-api"]))
    if pk == "state-api":
        # a predicate written against the documented argument type (State): uses n_photons / n_modes / slicing
        return {"pred": ["state-api", draw(st.integers(0, max(1, max_photons))), draw(st.integers(0, n_modes - 1))],
                "wrap": draw(st.booleans())}
    if pk == "max-le":
        return {"pred": ["max-le", draw(st.integers(1, 2))], "wrap": draw(st.booleans())}
    if pk == "mode-ne":
        return {"pred": ["mode-ne", draw(st.integers(0, n_modes - 1)), draw(st.integers(0, 1))],
                "wrap": draw(st.booleans())}
    modes = draw(st.lists(st.integers(0, n_modes - 1), unique=True, min_size=1, max_size=3))
    counts = draw(st.lists(st.integers(0, max(1, max_photons)), unique=True, min_size=1, max_size=2))
    return {"pred": ["total-in", sorted(modes), sorted(counts)], "wrap": draw(st.booleans())}


def accepts(ps, s) -> bool:
    """Own evaluation of a post-selection description on an occupation list."""
    if ps is None:
        return True
    if "rules" in ps:
        return all(sum(s[m] for m in modes) in counts for modes, counts in ps["rules"])
    p = ps["pred"]
    if p[0] == "max-le":
        return max(s, default=0) <= p[1]
    if p[0] == "mode-ne":
        return s[p[1]] != p[2]
    if p[0] == "total-in":
        return sum(s[m] for m in p[1]) in p[2]
    if p[0] == "state-api":
        return sum(s) >= p[1] or sum(s[p[2]:]) == 0
    raise ValueError(p)


def to_real(ps, defer=None):
    """The lightworks object / function for a description.
    defer: a list - the rules of a PostSelection object are then not added here; one callable per rule is
    appended to the list instead, so that the caller can hand the (still empty) object over first and complete
    it afterwards, as a user who builds the rule set step by step would."""
    import lightworks as lw
    if ps is None:
        return None
    if "rules" in ps:
        obj = lw.PostSelection(multi_rules=bool(ps.get("multi")))
        for modes, counts in ps["rules"]:
            m = modes[0] if len(modes) == 1 else tuple(modes)
            c = counts[0] if len(counts) == 1 else tuple(counts)
            if defer is None:
                obj.add(m, c)
            else:
                defer.append(lambda m=m, c=c: obj.add(m, c))
        return obj
    fn = _pred_function(ps["pred"])
    # a predicate may be given as a bare function or wrapped in the library's PostSelectionFunction
    return lw.PostSelectionFunction(fn) if ps.get("wrap") else fn


def _pred_function(p):
    if p[0] == "max-le":
        k = p[1]
        return lambda s: max(list(s), default=0) <= k
    if p[0] == "mode-ne":
        m, k = p[1], p[2]
        return lambda s: s[m] != k
    if p[0] == "state-api":
        k, m = p[1], p[2]
        return lambda s: s.n_photons >= k or s[m:].n_photons == 0
    modes, counts = list(p[1]), list(p[2])
    return lambda s: sum(s[m] for m in modes) in counts
