"""
Common driver for all property checks.

A check module (checks/cXX.py) exposes

    PROPERTY   "C01"
    RULE       text: how cases are generated and what makes one non-trivial
    ASSUMPTIONS list of strings
    subs(tier) -> list[Sub]

Each Sub is one executable property with its own generator and oracle.
`run(case)` executes one JSON-serialisable case against the real code and the
oracle; it raises Violation(msg, key) when the property is broken and returns
an info dict {"nontrivial": bool, "labels": [str, ...]} otherwise.

Exit codes of run_check.py: 0 held / only known findings, 1 violation,
2 harness error (never prints VIOLATION).
"""

from __future__ import annotations

import hashlib
import json
import os
import subprocess
import sys
import time
import traceback
from collections import Counter
from dataclasses import dataclass, field
from typing import Any, Callable

VERIF = os.path.dirname(os.path.dirname(os.path.abspath(__file__)))
REPO = os.environ.get("VERIF_REPO", "/repo")
WHEELS = "/opt/veriftools/wheels"


# --------------------------------------------------------------------------
# bootstrap
# --------------------------------------------------------------------------
def bootstrap() -> None:
    """Deterministic interpreter state + lightworks imported from REPO."""
    if os.environ.get("PYTHONHASHSEED") is None:
        env = dict(os.environ)
        env["PYTHONHASHSEED"] = "0"
        os.execve(sys.executable, [sys.executable, *sys.argv], env)
    # a runaway allocation inside the code under test must end as a MemoryError in that worker (reported like any other
    # unexpected exception), not take the machine down with it
    try:
        import resource
        lim = int(float(os.environ.get("VERIF_MEM_GB", "12")) * 2 ** 30)
        soft, hard = resource.getrlimit(resource.RLIMIT_AS)
        if hard == resource.RLIM_INFINITY or lim < hard:
            resource.setrlimit(resource.RLIMIT_AS, (lim, hard))
    except (ImportError, ValueError, OSError):
        pass
    os.environ.setdefault("MPLBACKEND", "Agg")
    os.environ.setdefault("OMP_NUM_THREADS", "1")
    os.environ.setdefault("OPENBLAS_NUM_THREADS", "1")
    os.environ.setdefault("MKL_NUM_THREADS", "1")
    os.environ.setdefault("NUMBA_NUM_THREADS", "1")
    deps = os.path.join(VERIF, ".deps")
    if os.path.isdir(deps) and deps not in sys.path:
        sys.path.insert(0, deps)
    try:
        import hypothesis  # noqa: F401
    except ImportError:
        os.makedirs(deps, exist_ok=True)
        subprocess.run(
            [sys.executable, "-m", "pip", "install", "--no-index",
             "--find-links", WHEELS, "--target", deps, "hypothesis"],
            check=True, stdout=subprocess.DEVNULL,
        )
        sys.path.insert(0, deps)
        import hypothesis  # noqa: F401
    if VERIF not in sys.path:
        sys.path.insert(0, VERIF)
    sys.path.insert(0, REPO)
    import warnings
    warnings.filterwarnings("ignore")
    import lightworks
    here = os.path.realpath(lightworks.__file__)
    if not here.startswith(os.path.realpath(REPO) + os.sep):
        raise RuntimeError(f"lightworks imported from {here}, not from {REPO}")


# --------------------------------------------------------------------------
# violations and known findings
# --------------------------------------------------------------------------
class Violation(AssertionError):
    """The property does not hold for the current case."""

    def __init__(self, msg: str, key: str = "unclassified") -> None:
        super().__init__(msg)
        self.msg = msg
        self.key = key


class _Stop(Exception):
    """Wall-clock safety cap reached (inconclusive, not a violation)."""


def unexpected(exc: BaseException, what: str) -> Violation:
    """Turn an exception raised by lightworks into a Violation with a key
    made from the exception type and the innermost lightworks frame."""
    tb = traceback.extract_tb(exc.__traceback__)
    frame = "?"
    for fr in tb:
        if "/lightworks/" in fr.filename:
            frame = f"{os.path.basename(fr.filename)}:{fr.name}"
    return Violation(
        f"{what}: unexpected {type(exc).__name__}: {exc}",
        key=f"raises-{type(exc).__name__}@{frame}",
    )


def from_lightworks(exc: BaseException) -> bool:
    """True when the exception was raised inside lightworks code (not in the harness)."""
    tb = traceback.extract_tb(exc.__traceback__)
    return bool(tb) and "/lightworks/" in tb[-1].filename


def call(what: str, fn: Callable, *a: Any, **k: Any) -> Any:
    """Call into lightworks; any exception is a violation of 'does not raise'."""
    try:
        return fn(*a, **k)
    except Violation:
        raise
    except Exception as e:  # noqa: BLE001
        raise unexpected(e, what) from e


def call_with_timeout(what: str, seconds: int, fn: Callable, *a: Any, **k: Any) -> Any:
    """Like fn(*a, **k), but a call that has not returned after `seconds` of *CPU time* of this process is a
    violation (non-termination). CPU time, not wall-clock: a loaded machine must not turn slowness into an alarm.
    Exceptions of fn propagate unchanged."""
    import signal

    class _Timeout(BaseException):
        pass

    def handler(signum, frame):  # noqa: ANN001, ARG001
        raise _Timeout()
    old = signal.signal(signal.SIGPROF, handler)
    signal.setitimer(signal.ITIMER_PROF, float(seconds))
    try:
        return fn(*a, **k)
    except _Timeout:
        raise Violation(f"{what}: did not return within {seconds} s of CPU time (non-termination)",
                        key="hang:" + what.split(" ")[0]) from None
    finally:
        signal.setitimer(signal.ITIMER_PROF, 0.0)
        signal.signal(signal.SIGPROF, old)


def expect_raises(what: str, excs: tuple, fn: Callable, *a: Any, **k: Any) -> BaseException:
    """The call must raise one of excs; returning or raising something else
    is a violation."""
    try:
        fn(*a, **k)
    except excs as e:
        return e
    except Exception as e:  # noqa: BLE001
        v = unexpected(e, what)
        v.key = "wrong-exception-" + v.key
        raise v from e
    raise Violation(f"{what}: accepted, expected one of "
                    f"{[x.__name__ for x in excs]}", key="accepted-invalid:" + what.split(" ")[0])


def load_known() -> list[dict]:
    path = os.path.join(VERIF, "known_findings.json")
    if not os.path.exists(path):
        return []
    with open(path) as f:
        return json.load(f).get("findings", [])


# --------------------------------------------------------------------------
# sub-checks and statistics
# --------------------------------------------------------------------------
@dataclass
class Sub:
    name: str
    run: Callable[[Any], dict | None]
    strategy: Any = None                 # hypothesis strategy of JSON-able cases
    examples: int = 100                  # per shard
    cases: Callable[[], Any] | None = None   # exhaustive enumeration instead
    machine: Any = None                  # RuleBasedStateMachine subclass factory
    steps: int = 30
    cap_s: float = 600.0                 # safety cap per shard
    exhaustive: bool = False


@dataclass
class Stats:
    evaluations: int = 0
    nontrivial: set = field(default_factory=set)
    labels: Counter = field(default_factory=Counter)
    samples: list = field(default_factory=list)
    known_hits: Counter = field(default_factory=Counter)
    per_sub: dict = field(default_factory=dict)
    budget_hit: list = field(default_factory=list)

    def record(self, sub: str, case: Any, info: dict | None) -> None:
        self.evaluations += 1
        ps = self.per_sub.setdefault(sub, {"evaluations": 0, "nontrivial": 0})
        ps["evaluations"] += 1
        info = info or {}
        for lab in info.get("labels", ()):
            self.labels[f"{sub}:{lab}"] += 1
        if info.get("nontrivial", False):
            h = case_hash(sub, case)
            if h not in self.nontrivial:
                self.nontrivial.add(h)
                ps["nontrivial"] += 1
                if sum(1 for s in self.samples if s["sub"] == sub) < 2:
                    self.samples.append({"sub": sub, "case": clip(case)})


def case_hash(sub: str, case: Any) -> str:
    s = sub + "|" + json.dumps(case, sort_keys=True, default=str)
    return hashlib.sha1(s.encode()).hexdigest()[:16]


def clip(case: Any, limit: int = 1500) -> Any:
    s = json.dumps(case, default=str)
    if len(s) <= limit:
        return case
    return {"truncated_json": s[:limit] + "..."}


def derive_seed(base: int, shard: int, name: str) -> int:
    h = hashlib.sha256(f"{base}/{shard}/{name}".encode()).digest()
    return int.from_bytes(h[:6], "big")


def _make_execute(sub: "Sub", last: dict, t0: float, stats: "Stats",
                  known_keys: dict) -> Callable:
    def execute(case: Any) -> None:
        if time.time() - t0 > sub.cap_s and not last.get("failing"):
            # wall-clock safety cap reached: the remaining generated cases are skipped (never a failure - raising
            # here would make Hypothesis treat the cap as a failing example); recorded as budget_cap_hit
            if sub.name not in stats.budget_hit:
                stats.budget_hit.append(sub.name)
            if sub.cases is not None:
                raise _Stop()              # plain iteration (no Hypothesis): leave the loop
            return
        try:
            try:
                info = sub.run(case)
            except Violation:
                raise
            except Exception as e:  # noqa: BLE001
                if from_lightworks(e):
                    raise unexpected(e, "unguarded call") from e
                raise
        except Violation as v:
            if v.key in known_keys:
                stats.known_hits[v.key] += 1
                stats.evaluations += 1
                return
            last["failing"] = True
            last["case"] = case
            last["msg"] = v.msg
            last["key"] = v.key
            raise
        stats.record(sub.name, case, info)
    return execute


# --------------------------------------------------------------------------
# running one shard
# --------------------------------------------------------------------------
def run_shard(module: Any, tier: str, seed: int, shard: int, nshards: int,
              only: str | None = None) -> dict:
    from hypothesis import HealthCheck, Phase, given, settings
    from hypothesis import seed as hseed

    known = [k for k in load_known()
             if k.get("property") == module.PROPERTY and k.get("status") == "known"]
    known_keys = {k["key"]: k for k in known}
    stats = Stats()
    violations: list[dict] = []

    all_subs = list(module.subs(tier))
    if os.environ.get("VERIF_CAP_S"):
        for s_ in all_subs:
            s_.cap_s = float(os.environ["VERIF_CAP_S"])
    if tier == "quick":
        # the per-sub-check example counts in checks/*.py are the original single-digit-second budgets; the quick
        # tier as registered runs 8 shards of 3 x that (six times the cases, still well under a minute per check)
        scale = float(os.environ.get("VERIF_QUICK_SCALE", "3"))
        for s_ in all_subs:
            if s_.examples:
                s_.examples = max(1, int(round(s_.examples * scale)))
    reg_dir = os.path.join(VERIF, "regressions", module.PROPERTY)
    if shard == 0 and os.path.isdir(reg_dir) and not only:
        by_name = {s_.name: s_ for s_ in all_subs}
        for fn in sorted(os.listdir(reg_dir)):
            if not fn.endswith(".json"):
                continue
            with open(os.path.join(reg_dir, fn)) as f:
                body = json.load(f)
            sub_ = by_name.get(body["sub"])
            if sub_ is None:
                continue
            try:
                if sub_.machine is not None:
                    info = replay_machine(sub_.machine.base, body["case"])
                else:
                    info = sub_.run(body["case"])
                stats.record("regressions", body["case"], info)
            except Violation as v:
                if v.key in known_keys:
                    stats.known_hits[v.key] += 1
                else:
                    violations.append({"sub": body["sub"], "key": v.key, "msg": f"[regression {fn}] " + v.msg,
                                       "case": body["case"]})

    for sub in all_subs:
        if only and sub.name != only:
            continue
        t0 = time.time()
        last: dict = {}

        execute = _make_execute(sub, last, t0, stats, known_keys)

        try:
            if sub.cases is not None:
                for i, case in enumerate(sub.cases()):
                    if i % nshards != shard:
                        continue
                    execute(case)
            elif sub.machine is not None:
                from hypothesis.stateful import run_state_machine_as_test
                mc = sub.machine(execute_hook=(stats, sub.name, last, known_keys, t0, sub.cap_s))
                st_ = settings(
                    max_examples=sub.examples, stateful_step_count=sub.steps,
                    database=None, deadline=None, report_multiple_bugs=False,
                    suppress_health_check=list(HealthCheck),
                    phases=[Phase.generate, Phase.shrink], print_blob=False,
                )
                run_state_machine_as_test(
                    hseed(derive_seed(seed, shard, sub.name))(mc), settings=st_
                )
            else:
                test = given(sub.strategy)(execute)
                test = settings(
                    max_examples=sub.examples, database=None, deadline=None,
                    report_multiple_bugs=False, print_blob=False,
                    suppress_health_check=list(HealthCheck),
                    phases=[Phase.generate, Phase.shrink],
                )(test)
                test = hseed(derive_seed(seed, shard, sub.name))(test)
                test()
        except _Stop:
            if sub.name not in stats.budget_hit:
                stats.budget_hit.append(sub.name)
        except Violation as v:
            violations.append({
                "sub": sub.name, "key": last.get("key", v.key),
                "msg": last.get("msg", v.msg), "case": last.get("case"),
            })
        except BaseException as e:  # harness error (or hypothesis internal)
            if last.get("failing"):
                # hypothesis wraps flaky failures etc.; still report the case
                violations.append({
                    "sub": sub.name, "key": last["key"], "msg": last["msg"]
                    + f" [hypothesis: {type(e).__name__}]", "case": last["case"],
                })
            else:
                raise
        ps_ = stats.per_sub.setdefault(sub.name, {"evaluations": 0, "nontrivial": 0})
        ps_["wall_s"] = round(time.time() - t0, 2)
        ps_["exhaustive"] = bool(sub.exhaustive and sub.cases is not None)

    return {
        "evaluations": stats.evaluations,
        "nontrivial": sorted(stats.nontrivial),
        "labels": dict(stats.labels),
        "samples": stats.samples,
        "known_hits": dict(stats.known_hits),
        "per_sub": stats.per_sub,
        "budget_hit": stats.budget_hit,
        "violations": violations,
    }


# --------------------------------------------------------------------------
# state machines: a recording base class
# --------------------------------------------------------------------------
class MachineSpec:
    """Wraps a RecordingMixin state machine class for use as Sub.machine."""

    def __init__(self, base: Any) -> None:
        self.base = base

    def __call__(self, execute_hook: tuple) -> Any:
        base = self.base

        class Wired(base):  # type: ignore[misc, valid-type]
            _hook = execute_hook
        Wired.__name__ = base.__name__
        Wired.__qualname__ = base.__qualname__
        return Wired


class RecordingMixin:
    """Mixin for RuleBasedStateMachine subclasses.  Every rule calls
    self.step(name, **args) which logs the step and runs do_<name>; replay
    re-executes the log without hypothesis.  A Violation whose key is a known
    finding marks the machine as dead (further steps are ignored)."""

    _hook: tuple | None = None

    def init_recording(self) -> None:
        self.log: list = []
        self.info_labels: set = set()
        self.nontrivial = False
        self.dead = False

    def step(self, name: str, **args: Any) -> None:
        if self.dead:
            return
        if self._hook is not None and time.time() - self._hook[4] > self._hook[5] \
                and not self._hook[2].get("failing"):
            # wall-clock safety cap: the rest of this and of all later histories is skipped, never reported
            if self._hook[1] not in self._hook[0].budget_hit:
                self._hook[0].budget_hit.append(self._hook[1])
            self.dead = True
            self.capped = True
            return
        self.log.append([name, args])
        try:
            try:
                getattr(self, "do_" + name)(**args)
                self.after_step()
            except Violation:
                raise
            except Exception as e:  # noqa: BLE001
                if from_lightworks(e):
                    raise unexpected(e, f"step {name}") from e
                raise
        except Violation as v:
            self._on_violation(v)

    def after_step(self) -> None:  # invariant hook
        pass

    def _on_violation(self, v: Violation) -> None:
        if self._hook is None:
            raise v
        stats, name, last, known_keys = self._hook[:4]
        if v.key in known_keys:
            stats.known_hits[v.key] += 1
            self.dead = True
            return
        last["failing"] = True
        last["case"] = list(self.log)
        last["msg"] = v.msg
        last["key"] = v.key
        raise v

    def finish(self) -> None:
        """Call from teardown()."""
        if self._hook is None:
            return
        stats, name = self._hook[:2]
        if getattr(self, "capped", False) and not self.log:
            return
        stats.record(name, list(self.log),
                     {"nontrivial": self.nontrivial and not self.dead,
                      "labels": sorted(self.info_labels)})


def replay_machine(base_cls: Any, log: list) -> dict:
    """Re-execute a recorded history on a fresh machine, no hypothesis."""
    m = base_cls()
    try:
        for name, args in log:
            m.log.append([name, args])
            getattr(m, "do_" + name)(**args)
            m.after_step()
    finally:
        try:
            m.teardown()
        except Exception:  # noqa: BLE001
            pass
    return {"nontrivial": m.nontrivial, "labels": sorted(m.info_labels)}


# --------------------------------------------------------------------------
# top level
# --------------------------------------------------------------------------
def write_replay(prop: str, v: dict) -> str:
    d = os.path.join(os.environ.get("VERIF_REPLAY_DIR") or os.path.join(VERIF, "replays"), prop)
    os.makedirs(d, exist_ok=True)
    body = {"property": prop, "sub": v["sub"], "key": v["key"],
            "message": v["msg"], "case": v["case"]}
    h = hashlib.sha1(json.dumps(body, sort_keys=True, default=str).encode()).hexdigest()[:12]
    path = os.path.join(d, f"{v['sub']}-{h}.json")
    with open(path, "w") as f:
        json.dump(body, f, indent=1, default=str)
    return path


def main_check(module: Any, argv: list[str]) -> int:
    import argparse
    ap = argparse.ArgumentParser()
    ap.add_argument("--tier", default=os.environ.get("VERIF_TIER", "quick"))
    ap.add_argument("--replay")
    ap.add_argument("--shard", type=int)
    ap.add_argument("--nshards", type=int)
    ap.add_argument("--out")
    ap.add_argument("--only")
    ap.add_argument("--no-evidence", action="store_true")
    args = ap.parse_args(argv)
    tier = args.tier if args.tier in ("quick", "thorough") else "quick"
    try:
        seed = int(os.environ.get("VERIF_SEED", "1"))
    except ValueError:
        seed = 1
    prop = module.PROPERTY
    t0 = time.time()

    from vlib import refmodel
    refmodel.selftest()
    if hasattr(module, "selftest"):
        module.selftest()

    # ---- replay ---------------------------------------------------------
    if args.replay:
        with open(args.replay) as f:
            body = json.load(f)
        sub = {s.name: s for s in module.subs("quick")}[body["sub"]]
        try:
            if sub.machine is not None:
                replay_machine(sub.machine.base, body["case"])
            else:
                sub.run(body["case"])
        except Violation as v:
            print(f"replay: {v.msg}")
            print(f"VIOLATION property={prop} replay={args.replay}")
            return 1
        print(f"replay: case passes ({body['sub']})")
        return 0

    # ---- a single shard (worker) -----------------------------------------
    if args.shard is not None:
        res = run_shard(module, tier, seed, args.shard, args.nshards or 1, args.only)
        with open(args.out, "w") as f:
            json.dump(res, f, default=str)
        return 0

    # ---- coordinator -------------------------------------------------------
    nshards = args.nshards or getattr(module, "SHARDS", {}).get(
        tier, 8 if tier == "quick" else 16)
    work = os.path.join(VERIF, ".work", f"{prop}-{os.getpid()}")
    os.makedirs(work, exist_ok=True)
    procs = []
    for k in range(nshards):
        out = os.path.join(work, f"shard{k}.json")
        if os.path.exists(out):
            os.remove(out)
        cmd = [sys.executable, os.path.join(VERIF, "run_check.py"), prop,
               "--tier", tier, "--shard", str(k), "--nshards", str(nshards),
               "--out", out]
        if args.only:
            cmd += ["--only", args.only]
        log = open(os.path.join(work, f"shard{k}.log"), "w")
        env = dict(os.environ)
        if tier == "thorough" and hasattr(module, "shard_env"):
            env.update(module.shard_env(k))
        procs.append((k, out, log, subprocess.Popen(cmd, stdout=log, stderr=subprocess.STDOUT, env=env)))
    results = []
    harness_errors = []
    for k, out, log, p in procs:
        p.wait()
        log.close()
        if p.returncode != 0 or not os.path.exists(out):
            with open(os.path.join(work, f"shard{k}.log")) as f:
                harness_errors.append((k, f.read()[-3000:]))
            continue
        with open(out) as f:
            results.append(json.load(f))
    if not harness_errors:
        import shutil
        shutil.rmtree(work, ignore_errors=True)
    if harness_errors:
        k, txt = harness_errors[0]
        print(f"HARNESS-ERROR in {len(harness_errors)} shard(s); first: shard={k}\n{txt[-1800:]}",
              file=sys.stderr)
        return 2

    # merge
    evaluations = sum(r["evaluations"] for r in results)
    nontrivial = set()
    labels: Counter = Counter()
    known_hits: Counter = Counter()
    per_sub: dict = {}
    samples: list = []
    budget_hit: list = []
    violations: dict = {}
    for r in results:
        nontrivial.update(r["nontrivial"])
        labels.update(r["labels"])
        known_hits.update(r["known_hits"])
        budget_hit += r["budget_hit"]
        for s, d in r["per_sub"].items():
            ps = per_sub.setdefault(s, {"evaluations": 0, "nontrivial": 0, "wall_s": 0.0})
            ps["exhaustive"] = bool(d.get("exhaustive", False))
            ps["evaluations"] += d.get("evaluations", 0)
            ps["nontrivial"] += d.get("nontrivial", 0)
            ps["wall_s"] = max(ps["wall_s"], d.get("wall_s", 0.0))
        for smp in r["samples"]:
            if sum(1 for s in samples if s["sub"] == smp["sub"]) < 2:
                samples.append(smp)
        for v in r["violations"]:
            violations.setdefault((v["sub"], v["key"]), v)

    known = {k["key"]: k for k in load_known()
             if k.get("property") == prop and k.get("status") == "known"}
    for key, n in known_hits.items():
        print(f"KNOWN-FINDING: property={prop} {known[key]['what']} (hit {n} times)")
    vlist = list(violations.values())
    for v in vlist:
        path = write_replay(prop, v)
        print(f"violation in {v['sub']} [{v['key']}]: {v['msg']}")
        print(f"VIOLATION property={prop} replay={os.path.relpath(path, VERIF)}")

    wall = time.time() - t0
    if not args.no_evidence and not args.only:
        ev = {
            "property_id": prop, "tier": tier, "seed": seed,
            "level": getattr(module, "LEVEL", "exploration"),
            "coverage": {
                "evaluations": evaluations,
                "distinct_nontrivial": len(nontrivial),
                "rule": module.RULE,
                "samples": samples,
                "exhaustive": bool(per_sub) and all(d.get("exhaustive") for k_, d in per_sub.items()
                                                    if k_ != "regressions"),
                "exhaustive_subchecks": sorted(k_ for k_, d in per_sub.items() if d.get("exhaustive")),
                "shards": nshards,
                "per_subcheck": per_sub,
                "class_counts": dict(sorted(labels.items())),
                "excluded_known_finding_hits": dict(known_hits),
                "budget_cap_hit": sorted(set(budget_hit)),
            },
            "assumptions": list(module.ASSUMPTIONS),
            "wall_s": round(wall, 2),
            "violations": len(vlist),
        }
        os.makedirs(os.path.join(VERIF, "evidence"), exist_ok=True)
        with open(os.path.join(VERIF, "evidence", f"{prop}.json"), "w") as f:
            json.dump(ev, f, indent=1, default=str)
    print(f"{prop} tier={tier} seed={seed} shards={nshards} evaluations={evaluations} "
          f"distinct_nontrivial={len(nontrivial)} violations={len(vlist)} "
          f"known_hits={sum(known_hits.values())} wall={wall:.1f}s")
    for s, d in per_sub.items():
        print(f"   {s}: {d}")
    if budget_hit:
        print(f"   wall-clock cap reached in: {sorted(set(budget_hit))} (remaining cases skipped; not a failure)")
    return 1 if vlist else 0
