"""Dual-rail qubit programs: generator, real builder (through lightworks.qubit) and
plain Kronecker reference (qubit 0 = left-most factor)."""
import itertools
import math

import numpy as np
from hypothesis import strategies as st

from .refmodel import fock, make_unitary, real_heralded_amp

I2 = np.eye(2, dtype=complex)
X = np.array([[0, 1], [1, 0]], dtype=complex)
Y = np.array([[0, -1j], [1j, 0]])
Z = np.diag([1, -1]).astype(complex)
Hd = (X + Z) / math.sqrt(2)
P0 = np.diag([1, 0]).astype(complex)
P1 = np.diag([0, 1]).astype(complex)
SINGLE = {
    "I": I2, "H": Hd, "X": X, "Y": Y, "Z": Z, "S": np.diag([1, 1j]), "Sadj": np.diag([1, -1j]),
    "T": np.diag([1, np.exp(1j * math.pi / 4)]), "Tadj": np.diag([1, np.exp(-1j * math.pi / 4)]),
    "SX": 0.5 * np.array([[1 + 1j, 1 - 1j], [1 - 1j, 1 + 1j]]),
}


def rot(name, th):
    c, s = math.cos(th / 2), math.sin(th / 2)
    return {"Rx": np.array([[c, -1j * s], [-1j * s, c]]), "Ry": np.array([[c, -s], [s, c]], dtype=complex),
            "Rz": np.diag([np.exp(-1j * th / 2), np.exp(1j * th / 2)]),
            "P": np.diag([1, np.exp(1j * th)])}[name]


def kron(*ms):
    out = np.array([[1.0 + 0j]])
    for m in ms:
        out = np.kron(out, m)
    return out


def on_qubit(n, q, m):
    fs = [I2] * n
    fs[q] = m
    return kron(*fs)


def controlled(n, controls, target, op):
    out = np.zeros((2 ** n, 2 ** n), dtype=complex)
    for bits in itertools.product([0, 1], repeat=len(controls)):
        fs = [I2] * n
        for c, b in zip(controls, bits):
            fs[c] = P1 if b else P0
        if all(bits):
            fs[target] = op
        out += kron(*fs)
    return out


def swap_matrix(n, a, b):
    dim = 2 ** n
    out = np.zeros((dim, dim), dtype=complex)
    for i in range(dim):
        bits = [(i >> (n - 1 - q)) & 1 for q in range(n)]
        bits[a], bits[b] = bits[b], bits[a]
        j = sum(bit << (n - 1 - q) for q, bit in enumerate(bits))
        out[j, i] = 1
    return out


# gate = [name, qubit (lowest), options]
@st.composite
def qubit_program(draw, n, max_gates=5, max_heralded=1, allow_ps=True, three=True):
    gates = []
    heralded = 0
    for _ in range(draw(st.integers(1, max_gates))):
        k = draw(st.integers(0, 7))
        if k <= 2 or n == 1:
            gates.append(["U", draw(st.integers(0, n - 1)), {"seed": draw(st.integers(0, 10 ** 6))}])
        elif k == 3:
            gates.append([draw(st.sampled_from(sorted(SINGLE))), draw(st.integers(0, n - 1)), {}])
        elif k == 4:
            theta = draw(st.floats(-7, 7, allow_nan=False))
            if abs(theta) < 1e-9:
                theta = 0.0        # amplitudes of subnormal size only exercise LAPACK underflow, not lightworks
            gates.append([draw(st.sampled_from(["Rx", "Ry", "Rz", "P"])), draw(st.integers(0, n - 1)),
                          {"theta": theta}])
        elif k in (5, 6):
            q = draw(st.integers(0, n - 2))
            names = []
            if allow_ps:
                names += ["CZ", "CNOT"]
            if heralded < max_heralded:
                names += ["CZ_Heralded", "CNOT_Heralded"]
            if not names:
                names = ["SWAP"]
            name = draw(st.sampled_from(names + ["SWAP"]))
            if "Heralded" in name:
                heralded += 1
            kw = {"target_qubit": draw(st.integers(0, 1))} if "CNOT" in name else {}
            gates.append([name, q, kw])
        elif k == 7 and n >= 3 and three and allow_ps:
            q = draw(st.integers(0, n - 3))
            name = draw(st.sampled_from(["CCZ", "CCNOT"]))
            kw = {"target_qubit": draw(st.integers(0, 2))} if name == "CCNOT" else {}
            gates.append([name, q, kw])
        else:
            gates.append(["U", draw(st.integers(0, n - 1)), {"seed": draw(st.integers(0, 10 ** 6))}])
    return sanitize({"n": n, "gates": gates})


@st.composite
def entangling_program(draw, n, max_heralded=1, allow_ps=True):
    """Local unitaries on every qubit, an entangling gate, then a random tail."""
    gates = [["U", q, {"seed": draw(st.integers(0, 10 ** 6))}] for q in range(n)]
    names = (["CZ", "CNOT"] if allow_ps else []) + (["CZ_Heralded", "CNOT_Heralded"] if max_heralded else [])
    name = draw(st.sampled_from(names))
    kw = {"target_qubit": draw(st.integers(0, 1))} if "CNOT" in name else {}
    gates.append([name, draw(st.integers(0, n - 2)), kw])
    tail = draw(qubit_program(n, max_gates=3, max_heralded=0 if "Heralded" in name else max_heralded,
                              allow_ps=allow_ps))
    return sanitize({"n": n, "gates": gates + tail["gates"]})


@st.composite
def clifford_program(draw, n, max_gates=6, max_heralded=1, allow_ps=True):
    """Only named gates (no generic unitaries): states and processes with exactly vanishing entries."""
    gates = []
    heralded = 0
    names1 = ["H", "X", "Y", "Z", "S", "Sadj", "I", "T", "SX"]
    for _ in range(draw(st.integers(1, max_gates))):
        if n >= 2 and draw(st.integers(0, 2)) == 0:
            q = draw(st.integers(0, n - 2))
            opts = (["CZ", "CNOT"] if allow_ps else []) + (["CZ_Heralded", "CNOT_Heralded"]
                                                           if heralded < max_heralded else []) + ["SWAP"]
            name = draw(st.sampled_from(opts))
            if "Heralded" in name:
                heralded += 1
            kw = {"target_qubit": draw(st.integers(0, 1))} if "CNOT" in name else {}
            gates.append([name, q, kw])
        else:
            gates.append([draw(st.sampled_from(names1)), draw(st.integers(0, n - 1)), {}])
    return sanitize({"n": n, "gates": gates})


PS_GATES = {"CZ": 2, "CNOT": 2, "CCZ": 3, "CCNOT": 3}
MULTI = {"CZ": 2, "CNOT": 2, "CZ_Heralded": 2, "CNOT_Heralded": 2, "SWAP": 2, "CCZ": 3, "CCNOT": 3}


def sanitize(prog):
    """A post-selected gate only implements its unitary if none of its qubits meets another
    multi-qubit gate afterwards; later offending gates are replaced by local unitaries."""
    gates = []
    tainted = set()
    for name, q, kw in prog["gates"]:
        width = MULTI.get(name, 1)
        qs = set(range(q, q + width))
        if width > 1 and qs & tainted:
            gates.append(["U", q, {"seed": 17 + len(gates)}])
            continue
        if name in PS_GATES:
            tainted |= qs
        gates.append([name, q, kw])
    return {"n": prog["n"], "gates": gates}


def reference_unitary(prog):
    n = prog["n"]
    V = np.eye(2 ** n, dtype=complex)
    for name, q, kw in prog["gates"]:
        if name == "U":
            g = on_qubit(n, q, make_unitary("haar", 2, kw["seed"]))
        elif name in SINGLE:
            g = on_qubit(n, q, SINGLE[name])
        elif name in ("Rx", "Ry", "Rz", "P"):
            g = on_qubit(n, q, rot(name, kw["theta"]))
        elif name in ("CZ", "CZ_Heralded"):
            g = controlled(n, [q], q + 1, Z)
        elif name in ("CNOT", "CNOT_Heralded"):
            t = kw["target_qubit"]
            g = controlled(n, [q + 1 - t], q + t, X)
        elif name == "SWAP":
            g = swap_matrix(n, q, q + 1)
        elif name == "CCZ":
            g = controlled(n, [q, q + 1], q + 2, Z)
        elif name == "CCNOT":
            t = kw["target_qubit"]
            g = controlled(n, [q + x for x in range(3) if x != t], q + t, X)
        else:
            raise ValueError(name)
        V = g @ V
    return V


def build_real(prog):
    """prog may carry "pad": [front, back] - that many extra modes before / after the qubit modes which are
    heralded on 0 photons directly on the circuit (like the herald modes of the library's own CZ)."""
    import lightworks as lw
    from lightworks import qubit
    n = prog["n"]
    if prog.get("hpos"):
        # heralded (0-photon) modes declared directly on the circuit at arbitrary positions, also between the two
        # rails of a qubit: the qubit rails are the remaining modes in order.  Built as S^-1 . G . S, with S a mode
        # permutation that brings the rails to the front, so the gates themselves stay on adjacent modes.
        total = 2 * n + len(prog["hpos"])
        c = lw.Circuit(total)
        for m in prog["hpos"]:
            c.herald(0, m)
        to_front = hpos_swaps(n, prog["hpos"])
        if any(a != b for a, b in to_front.items()):
            c.mode_swaps(dict(to_front))
        inner = build_real({"n": n, "gates": prog["gates"]})
        c.add(inner, 0)
        if any(a != b for a, b in to_front.items()):
            c.mode_swaps({b: a for a, b in to_front.items()})
        return c
    kf, kb = prog.get("pad", [0, 0])
    c = lw.Circuit(kf + 2 * n + kb)
    cross = bool(prog.get("cross")) and kf >= 1 and kb >= 1
    f_, b_ = 0, kf + 2 * n + kb - 1
    for m in list(range(kf)) + list(range(kf + 2 * n, kf + 2 * n + kb)):
        if cross and m in (f_, b_):
            continue
        c.herald(0, m)
    if cross:
        # a crossed pair of heralds with different photon numbers: one photon enters on the first mode and is expected
        # on the last, vacuum enters on the last and is expected on the first (a swap at the end routes it there)
        c.herald(1, f_, b_)
        c.herald(0, b_, f_)
    for name, q, kw in prog["gates"]:
        if name == "U":
            c.add(lw.Unitary(make_unitary("haar", 2, kw["seed"])), kf + 2 * q)
        elif name in ("Rx", "Ry", "Rz", "P"):
            c.add(getattr(qubit, name)(kw["theta"]), kf + 2 * q)
        elif name == "SWAP":
            a = kf + 2 * q
            c.add(qubit.SWAP((a, a + 1), (a + 2, a + 3)), 0)
        else:
            c.add(getattr(qubit, name)(**kw), kf + 2 * q)
    if cross:
        c.mode_swaps({f_: b_, b_: f_})
    return c


def hpos_swaps(n, hpos):
    """Mode permutation {raw mode: position} bringing the qubit rails (non-heralded modes, in order) to 0..2n-1."""
    total = 2 * n + len(hpos)
    rails = [m for m in range(total) if m not in hpos]
    order = rails + sorted(hpos)
    return {m: i for i, m in enumerate(order)}


def add_on_qubit(circ, prog, q, gate):
    """Add a two-mode component on the rails of qubit q of a circuit built by build_real(prog)."""
    if prog.get("hpos"):
        sw = hpos_swaps(prog["n"], prog["hpos"])
        moved = any(a != b for a, b in sw.items())
        if moved:
            circ.mode_swaps(dict(sw))
        circ.add(gate, 2 * q)
        if moved:
            circ.mode_swaps({b: a for a, b in sw.items()})
    else:
        circ.add(gate, prog.get("pad", [0, 0])[0] + 2 * q)


def scale_choice(scale_seed, i):
    """Total 'number of shots' of the i-th requested circuit: noiseless frequencies may come with a different
    total for every measurement circuit (different shot numbers, post-selection losses)."""
    import random
    if scale_seed is None:
        return 1.0
    return random.Random(scale_seed * 7919 + i).choice([1.0, 1.0, 1000.0, 0.37, 12345.678, 1 / 9, 3.0])


def ulp_choice(ulp_seed, i):
    """Which of the requested circuits get their weights re-rounded in the last place (about 40%)."""
    import random
    if ulp_seed is None:
        return None
    return ulp_seed + i if random.Random(ulp_seed * 1009 + i).random() < 0.4 else None


def herald_photons(prog):
    return 2 * sum(1 for g in prog["gates"] if "Heralded" in g[0])


def basis_state(n, b):
    s = []
    for q in range(n):
        s += [0, 1] if (b >> (n - 1 - q)) & 1 else [1, 0]
    return s


def dual_rail_outputs(n):
    return [basis_state(n, b) for b in range(2 ** n)]


def exact_counts(circ, n, vin, ulp_seed=None, normalise=False, scale=None):
    """Exact heralded, dual-rail post-selected outcome weights of a real circuit for input vin
    (own permanent on the public U_full and heralds).  With ulp_seed every weight is moved by -1, 0 or +1
    unit in the last place (a different but equally valid rounding of the same noiseless frequencies)."""
    import random

    import lightworks as lw
    rng = random.Random(ulp_seed) if ulp_seed is not None else None
    out = {}
    for o in dual_rail_outputs(n):
        p = abs(real_heralded_amp(circ, vin, o)) ** 2
        if rng is not None:
            k = rng.choice((-1, 0, 0, 1))
            if k:
                p = float(np.nextafter(p, math.inf if k > 0 else 0.0))
        out[lw.State(list(o))] = p
    if scale is not None and scale != 1.0:
        out = {k: v * scale for k, v in out.items()}
    if normalise:
        # relative frequencies instead of raw weights: computed from the normalised state vector, i.e. the
        # amplitudes are divided by the norm before squaring (another valid rounding of the same numbers)
        amps = {k: math.sqrt(v) for k, v in out.items()}
        nrm = math.sqrt(sum(v for v in out.values()))
        if nrm > 0:
            out = {k: abs(a / nrm) ** 2 for k, a in amps.items()}
    return out
