"""
Hypothesis strategies producing JSON-serialisable circuit programs, states and
configurations.  Everything is built by construction (no filter/assume).

Program:  {"n": <user-visible modes>, "ops": [op, ...]}
op:
  ["bs", m1, m2|None, refl, conv, loss]
  ["ps", m, phi, loss]
  ["loss", m, l]
  ["barrier", [modes] | None]
  ["swaps", [[k, v], ...]]
  ["unitary", m, kind, k, seed]
  ["herald", n, in_mode, out_mode|None]
  ["add", <program>, m, group, name|None]
  ["plus", <program>]
A numeric value slot may instead be {"p": i}: Parameter number i of the case.
"""

from __future__ import annotations

import math

from hypothesis import strategies as st

from .refmodel import UNITARY_KINDS

PI = math.pi

refl = st.one_of(st.sampled_from([0.0, 1.0, 0.5, 0.5, 0.9999999999999999, 1e-17, 1e-8, 1 - 1e-8, 1e-6, 1]),
                 st.floats(0, 1, allow_nan=False))
loss_pos = st.one_of(st.sampled_from([1.0, 0.5, 1e-9]),
                     st.floats(0, 1, allow_nan=False, exclude_min=True))
loss_opt = st.one_of(st.just(0), st.just(0), loss_pos)          # for shorthands
loss_any = st.one_of(st.just(0.0), loss_pos, loss_pos)
phase = st.one_of(
    st.sampled_from([k * PI / 4 for k in range(-8, 9)]),
    st.floats(-20, 20, allow_nan=False),
    st.integers(-6, 6),
    # a hair off a multiple of pi/2 (an interferometer just off its dark fringe); many turns
    st.builds(lambda k, d, s: k * PI / 2 + s * d, st.integers(-8, 8),
              st.sampled_from([1e-7, 3e-6, 1e-5, 1e-4, 1e-3]), st.sampled_from([1, -1])),
    st.sampled_from([1e9, -3e10, 1e12 + 0.5]),
)
conv = st.sampled_from(["Rx", "Rx", "H"])


@st.composite
def op_bs(draw, n, lossy=True):
    m1 = draw(st.integers(0, n - 1))
    if m1 < n - 1 and draw(st.integers(0, 5)) == 0:
        m2 = None
    else:
        m2 = (m1 + draw(st.integers(1, n - 1))) % n
    l = draw(loss_opt) if lossy else 0
    return ["bs", m1, m2, draw(refl), draw(conv), l]


@st.composite
def op_ps(draw, n, lossy=True):
    return ["ps", draw(st.integers(0, n - 1)), draw(phase),
            draw(loss_opt) if lossy else 0]


@st.composite
def op_loss(draw, n):
    return ["loss", draw(st.integers(0, n - 1)), draw(loss_any)]


@st.composite
def op_barrier(draw, n):
    if draw(st.booleans()):
        return ["barrier", None]
    modes = draw(st.lists(st.integers(0, n - 1), unique=True, max_size=n))
    return ["barrier", modes]


@st.composite
def op_swaps(draw, n):
    if n >= 2 and draw(st.booleans()):
        # a plain exchange of two modes (may be stated with fixed points)
        a = draw(st.integers(0, n - 1))
        b = (a + draw(st.integers(1, n - 1))) % n
        pairs = [[a, b], [b, a]]
        if draw(st.integers(0, 4)) == 0:
            fixed = [m for m in range(n) if m not in (a, b)]
            pairs += [[m, m] for m in fixed[:draw(st.integers(0, len(fixed)))]]
        return ["swaps", pairs]
    if n >= 4 and draw(st.integers(0, 2)) == 0:
        # a product of two disjoint cycles (2+2, 2+3, 3+3 ...): the cycles are independent of each other, which is
        # what cycle-wise bookkeeping in the rewrites has to get right
        modes = draw(st.permutations(range(n)))
        a = draw(st.integers(2, max(2, min(3, n - 2))))
        b = draw(st.integers(2, max(2, min(3, n - a))))
        c1, c2 = list(modes[:a]), list(modes[a:a + b])
        pairs = [[c[i], c[(i + 1) % len(c)]] for c in (c1, c2) for i in range(len(c))]
        return ["swaps", pairs]
    keys = draw(st.lists(st.integers(0, n - 1), unique=True, min_size=0, max_size=n))
    vals = draw(st.permutations(keys))
    return ["swaps", [[k, v] for k, v in zip(keys, vals)]]


@st.composite
def op_unitary(draw, n, kinds=None):
    m = draw(st.integers(0, n - 1))
    k = draw(st.integers(1, n - m))
    kind = draw(st.sampled_from(kinds or ["haar", "haar", "perm", "diag", "identity",
                                          "dft", "block", "near9", "real", "hadamard"]))
    return ["unitary", m, kind, k, draw(st.integers(0, 10 ** 6))]


def primitive(n, lossy=True, weights=None):
    opts = [op_bs(n, lossy), op_bs(n, lossy), op_ps(n, lossy), op_swaps(n),
            op_unitary(n), op_barrier(n)]
    if n < 2:
        opts = [op_ps(n, lossy), op_unitary(n), op_barrier(n)]
    if lossy:
        opts.append(op_loss(n))
    return st.one_of(*opts)


def count_heralds(prog) -> int:
    return sum(1 for op in prog["ops"] if op[0] == "herald")


def has_any_herald(prog) -> bool:
    for op in prog["ops"]:
        if op[0] == "herald":
            return True
        if op[0] in ("add", "plus") and has_any_herald(op[1]):
            return True
    return False


@st.composite
def program(draw, n=None, min_n=2, max_n=6, depth=2, max_ops=8, lossy=True,
            heralds=True, max_herald_photons=1, min_ops=0, adds=True,
            plus=True, top=True):
    """A circuit program.  Sub-circuits (depth > 0) may carry heralds; the
    top-level program may carry heralds too (they are then external)."""
    if n is None:
        n = draw(st.integers(min_n, max_n))
    ops = []
    n_ops = draw(st.integers(min_ops, max_ops))
    free_in = list(range(n))     # modes without input herald
    free_out = list(range(n))
    heralded = False
    for _ in range(n_ops):
        choice = draw(st.integers(0, 9))
        if choice <= 5 or (depth <= 0 and choice in (6, 7)) or (not adds and choice in (6, 7)):
            ops.append(draw(primitive(n, lossy)))
        elif choice in (6, 7):
            # addition of a sub-circuit
            ck = draw(st.integers(1, min(n + 2, 5)))
            child = draw(program(n=ck, depth=depth - 1, max_ops=4, lossy=lossy,
                                 heralds=heralds, max_herald_photons=max_herald_photons,
                                 adds=adds, plus=False, top=False))
            vis = ck - count_heralds(child)
            if vis < 1 or vis > n:
                # make it fit: drop the heralds of the child
                child = {"n": min(ck, n), "ops": []}
                vis = child["n"]
            m = draw(st.integers(0, n - vis))
            group = draw(st.booleans())
            name = draw(st.sampled_from([None, None, "sub", "x", "", "ab", "a long name for a small box", "θ"]))
            ops.append(["add", child, m, group, name])
            if has_any_herald(child):
                heralded = True
        elif choice == 8 and heralds and len(free_in) > 1 and (not top or draw(st.booleans())):
            i = draw(st.sampled_from(free_in))
            o = draw(st.sampled_from(free_out))
            free_in.remove(i)
            free_out.remove(o)
            nph = draw(st.integers(0, max_herald_photons))
            ops.append(["herald", nph, i, o if (o != i or draw(st.booleans())) else None])
            heralded = True
        elif choice == 9 and plus and not heralded and depth > 0:
            other = draw(program(n=n, depth=0, max_ops=3, lossy=lossy, heralds=False,
                                 adds=False, plus=False, top=False))
            ops.append(["plus", other])
        else:
            ops.append(draw(primitive(n, lossy)))
    return {"n": n, "ops": ops}


@st.composite
def flat_program(draw, min_n=2, max_n=7, max_ops=15, lossy=True, min_ops=0):
    n = draw(st.integers(min_n, max_n))
    ops = draw(st.lists(primitive(n, lossy), min_size=min_ops, max_size=max_ops))
    if lossy and ops and draw(st.integers(0, 3)) == 0:
        # loss elements back to back on one mode (a lossy component followed by extra loss on one of its modes)
        i = draw(st.integers(0, len(ops) - 1))
        op = ops[i]
        mode = None
        if op[0] == "loss":
            mode = op[1]
        elif op[0] == "ps" and not isinstance(op[3], dict) and op[3] > 0:
            mode = op[1]
        elif op[0] == "bs" and not isinstance(op[5], dict) and op[5] > 0:
            mode = draw(st.sampled_from([op[1], op[1] + 1 if op[2] is None else op[2]]))
        if mode is not None and len(ops) < max(max_ops, 1) + 2:
            extra = [["loss", mode, draw(loss_pos)]]
            if draw(st.booleans()):
                extra.insert(0, ["barrier", None])
            ops[i + 1:i + 1] = extra
    return {"n": n, "ops": ops}


@st.composite
def fock_state(draw, n_modes, n_photons):
    """An occupation list with exactly n_photons photons in n_modes."""
    s = [0] * n_modes
    if n_modes == 0:
        return s
    for _ in range(n_photons):
        s[draw(st.integers(0, n_modes - 1))] += 1
    return s


def near_full_reflection(prog):
    """True when some beam splitter (at any depth) has a reflectivity within 1e-6 of, but not equal to, 1: there
    lightworks' sin(arccos(sqrt(r))) is ill-conditioned and entries are only good to ~1e-8."""
    for op in prog["ops"]:
        if op[0] == "bs" and isinstance(op[3], float) and 1 - 1e-6 < op[3] < 1:
            return True
        if op[0] in ("add", "plus") and near_full_reflection(op[1]):
            return True
    return False


def program_stats(prog, depth=0, acc=None):
    """Structural facts used for non-triviality rules and class counters."""
    if acc is None:
        acc = {"ops": 0, "kinds": set(), "adds": 0, "heralded_adds": 0, "depth": 0,
               "heralds": 0, "inout": 0, "loss": 0, "lossy_short": 0,
               "herald_photons": 0, "plus": 0, "groups": 0, "nonadj_bs": 0,
               "swaps": 0, "two_mode": 0}
    acc["depth"] = max(acc["depth"], depth)
    for op in prog["ops"]:
        acc["ops"] += 1
        acc["kinds"].add(op[0])
        k = op[0]
        if k == "bs":
            acc["two_mode"] += 1
            m2 = op[1] + 1 if op[2] is None else op[2]
            if abs(m2 - op[1]) != 1:
                acc["nonadj_bs"] += 1
            if not isinstance(op[5], dict) and op[5] > 0:
                acc["lossy_short"] += 1
                acc["loss"] += 2
        elif k == "ps":
            if not isinstance(op[3], dict) and op[3] > 0:
                acc["lossy_short"] += 1
                acc["loss"] += 1
        elif k == "loss":
            acc["loss"] += 1
        elif k == "swaps":
            acc["swaps"] += 1
            if len(op[1]) >= 2:
                acc["two_mode"] += 1
        elif k == "unitary":
            if op[3] >= 2:
                acc["two_mode"] += 1
        elif k == "herald":
            acc["heralds"] += 1
            acc["herald_photons"] += op[1]
            if op[3] is not None and op[3] != op[2]:
                acc["inout"] += 1
        elif k == "add":
            acc["adds"] += 1
            if op[3] or has_any_herald(op[1]):
                acc["groups"] += 1
            if has_any_herald(op[1]):
                acc["heralded_adds"] += 1
            program_stats(op[1], depth + 1, acc)
        elif k == "plus":
            acc["plus"] += 1
            program_stats(op[1], depth, acc)
    return acc


@st.composite
def heralded_child(draw, max_k=5, max_herald_photons=1, depth=1, lossy=True):
    """A sub-circuit with 1-2 heralds (often input != output mode, any
    declaration order) around a mixing unitary, optionally nested."""
    k = draw(st.integers(2, max_k))
    nh = draw(st.integers(1, min(2, k - 1)))
    ins = draw(st.permutations(range(k)))[:nh]
    outs = draw(st.permutations(range(k)))[:nh]
    if draw(st.booleans()):
        outs = list(ins)
    ops = []
    pre = draw(st.lists(primitive(k, lossy), max_size=2))
    ops += pre
    ops.append(["unitary", 0, "haar", k, draw(st.integers(0, 10 ** 6))])
    if depth > 0 and draw(st.integers(0, 3)) == 0:
        inner = draw(heralded_child(max_k=3, max_herald_photons=max_herald_photons,
                                    depth=depth - 1, lossy=lossy))
        vis = inner["n"] - count_heralds(inner)
        if vis <= k:
            ops.append(["add", inner, draw(st.integers(0, k - vis)), True, None])
            ops.append(["unitary", 0, "haar", k, draw(st.integers(0, 10 ** 6))])
    heralds = [["herald", draw(st.integers(0, max_herald_photons)), int(i),
                int(o)] for i, o in zip(ins, outs)]
    # heralds may be declared before, between or after the components
    for h in heralds:
        pos = draw(st.integers(0, len(ops)))
        ops.insert(pos, h)
    return {"n": k, "ops": ops}


@st.composite
def addition_tree(draw, min_n=2, max_n=5, max_adds=4, max_herald_photons=1, lossy=True):
    """Parent with several successive additions, most of them heralded, with
    primitives interleaved (the shape C02/C08 failures need)."""
    import copy
    n = draw(st.integers(min_n, max_n))
    ops = []
    for _ in range(draw(st.integers(2, max_adds))):
        ops += draw(st.lists(primitive(n, lossy), max_size=2))
        earlier = [op for op in ops if op[0] == "add"]
        if earlier and draw(st.integers(0, 4)) == 0:
            # the same building block once more, somewhere else (the builder then adds the same circuit object again)
            prev = draw(st.sampled_from(earlier))
            vis = prev[1]["n"] - count_heralds(prev[1])
            ops.append(["add", copy.deepcopy(prev[1]), draw(st.integers(0, n - vis)), prev[3], prev[4]])
        elif draw(st.integers(0, 3)) > 0:
            child = draw(heralded_child(max_k=min(5, n + 2),
                                        max_herald_photons=max_herald_photons, lossy=lossy))
            vis = child["n"] - count_heralds(child)
            if vis > n:
                child = draw(heralded_child(max_k=2, max_herald_photons=max_herald_photons,
                                            depth=0, lossy=lossy))
                vis = 1
            ops.append(["add", child, draw(st.integers(0, n - vis)), True,
                        draw(st.sampled_from([None, "g"]))])
        else:
            ck = draw(st.integers(1, n))
            child = draw(program(n=ck, depth=1, max_ops=3, lossy=lossy, heralds=False,
                                 plus=False, top=False))
            if has_any_herald(child):
                child = {"n": ck, "ops": [["unitary", 0, "haar", ck, draw(st.integers(0, 999))]]}
            ops.append(["add", child, draw(st.integers(0, n - ck)), draw(st.booleans()), None])
    ops += draw(st.lists(primitive(n, lossy), max_size=2))
    if draw(st.integers(0, 2)) == 0 and n >= 2:
        # a herald declared on the parent itself, anywhere between the additions; also in the one-argument
        # form herald(n, mode) (output mode defaulted), which takes its own path through the mode mapping
        i = draw(st.integers(0, n - 1))
        o = draw(st.one_of(st.none(), st.integers(0, n - 1)))
        ops.insert(draw(st.integers(0, len(ops))), ["herald", draw(st.integers(0, 1)), i, o])
    return {"n": n, "ops": ops}


def limit_loss(prog, budget):
    """Deterministically caps the number of loss elements in a program (and
    its sub-programs) at `budget` by turning surplus ones off.  Returns
    (new_prog, used)."""
    def walk(p, left):
        ops = []
        for op in p["ops"]:
            op = list(op)
            if op[0] == "loss":
                if left[0] >= 1:
                    left[0] -= 1
                else:
                    continue
            elif op[0] == "bs" and not isinstance(op[5], dict) and op[5] > 0:
                if left[0] >= 2:
                    left[0] -= 2
                else:
                    op[5] = 0
            elif op[0] == "ps" and not isinstance(op[3], dict) and op[3] > 0:
                if left[0] >= 1:
                    left[0] -= 1
                else:
                    op[3] = 0
            elif op[0] in ("add", "plus"):
                op[1] = walk(op[1], left)
            ops.append(op)
        return {"n": p["n"], "ops": ops}
    left = [budget]
    new = walk(prog, left)
    return new, budget - left[0]


def dims(prog):
    """(total circuit modes incl. ancillas, loss elements, herald photons)."""
    s = program_stats(prog)

    def anc(p, top):
        k = 0
        for op in p["ops"]:
            if op[0] == "herald" and not top:
                k += 1
            elif op[0] in ("add", "plus"):
                k += anc(op[1], False)
        return k
    return prog["n"] + anc(prog, True), s["loss"], s["herald_photons"]


def n_states(prog, n_photons):
    """Number of full Fock output states of the lossy dilation."""
    import math
    modes, loss, hp = dims(prog)
    d = modes + loss
    ph = n_photons + hp
    return math.comb(d + ph - 1, ph)


def cap_herald_photons(prog, cap=15000):
    """Herald photons are part of the program, not of the input, so fit_photons cannot reduce them: where the heralds
    alone make the exact distribution larger than `cap` full states, herald photon numbers are lowered (innermost and
    last first) until it fits. Returns a new program; a cost bound by construction, nothing is filtered."""
    import copy
    if n_states(prog, 0) <= cap:
        return prog
    prog = copy.deepcopy(prog)
    sites = []

    def walk(p):
        for op in p["ops"]:
            if op[0] == "herald" and op[1] > 0:
                sites.append(op)
            elif op[0] in ("add", "plus"):
                walk(op[1])
    walk(prog)
    while sites and n_states(prog, 0) > cap:
        op = sites[-1]
        op[1] -= 1
        if op[1] == 0:
            sites.pop()
    return prog


def fit_photons(prog, wanted, cap=15000):
    """Largest photon number <= wanted keeping the exact distribution small."""
    n = wanted
    while n > 0 and n_states(prog, n) > cap:
        n -= 1
    return n


SINGLE_GATES = ["H", "X", "Y", "Z", "S", "Sadj", "T", "Tadj", "SX"]
ROT_GATES = ["Rx", "Ry", "Rz", "P"]


@st.composite
def gate_program(draw, n_qubits=2, max_gates=4, max_heralded=1, lossy=True, three=False):
    """A dual-rail qubit circuit built from the lightworks.qubit library
    (real side only; not interpretable by the wire model)."""
    n = 2 * n_qubits
    ops = []
    heralded = 0
    for _ in range(draw(st.integers(1, max_gates))):
        k = draw(st.integers(0, 6))
        if k <= 1:
            q = draw(st.integers(0, n_qubits - 1))
            ops.append(["gate", draw(st.sampled_from(SINGLE_GATES)), {}, 2 * q])
        elif k == 2:
            q = draw(st.integers(0, n_qubits - 1))
            ops.append(["gate", draw(st.sampled_from(ROT_GATES)), {"theta": draw(phase)}, 2 * q])
        elif k in (3, 4) and n_qubits >= 2:
            q = draw(st.integers(0, n_qubits - 2))
            names = ["CZ", "CNOT"]
            if heralded < max_heralded:
                names += ["CZ_Heralded", "CNOT_Heralded"]
            name = draw(st.sampled_from(names))
            if "Heralded" in name:
                heralded += 1
            kw = {} if name.startswith("CZ") else {"target_qubit": draw(st.integers(0, 1))}
            ops.append(["gate", name, kw, 2 * q])
        elif k == 5 and lossy:
            ops.append(draw(st.one_of(op_loss(n), op_ps(n, True))))
        elif k == 6 and three and n_qubits >= 3:
            q = draw(st.integers(0, n_qubits - 3))
            name = draw(st.sampled_from(["CCZ", "CCNOT"]))
            kw = {} if name == "CCZ" else {"target_qubit": draw(st.integers(0, 2))}
            ops.append(["gate", name, kw, 2 * q])
        else:
            ops.append(["unitary", 2 * draw(st.integers(0, n_qubits - 1)), "haar", 2,
                        draw(st.integers(0, 10 ** 6))])
    return {"n": n, "ops": ops}


def gate_dims(prog):
    """(total modes, loss elements, herald photons) for a gate_program."""
    extra = {"CZ": (2, 0), "CNOT": (2, 0), "CZ_Heralded": (4, 2), "CNOT_Heralded": (4, 2),
             "CCZ": (2, 0), "CCNOT": (2, 0)}
    modes, hp, loss = prog["n"], 0, 0
    for op in prog["ops"]:
        if op[0] == "gate" and op[1] in extra:
            modes += extra[op[1]][0]
            hp += extra[op[1]][1]
        elif op[0] == "loss":
            loss += 1
        elif op[0] == "ps" and op[3] > 0:
            loss += 1
    return modes, loss, hp


# ----------------------------------------------------------------- parameters
def _slots(prog, path=()):
    """Yield (path, index, kind) of numeric value slots: kind 'unit' | 'phase'."""
    for i, op in enumerate(prog["ops"]):
        k = op[0]
        if k == "bs":
            yield (path + (i,), 3, "unit")
            if not isinstance(op[5], dict):
                yield (path + (i,), 5, "unit")       # also when the loss is currently 0
        elif k == "ps":
            yield (path + (i,), 2, "phase")
            if not isinstance(op[3], dict):
                yield (path + (i,), 3, "unit")
        elif k == "loss":
            yield (path + (i,), 2, "unit")
        elif k in ("add", "plus"):
            yield from _slots(op[1], path + (i,))


def _get_op(prog, path):
    op = None
    p = prog
    for i in path:
        op = p["ops"][i]
        if op[0] in ("add", "plus"):
            p = op[1]
    return op


@st.composite
def parametrized(draw, prog_strategy, max_params=4, min_params=0):
    """{"prog": program with {"p": i} slots, "values": [...], "kinds": [...]}"""
    import copy
    prog = copy.deepcopy(draw(prog_strategy))
    slots = list(_slots(prog))
    values, kinds = [], []
    if slots:
        n_pick = draw(st.integers(min(min_params, len(slots)), min(len(slots), max_params + 2)))
        picked = draw(st.permutations(range(len(slots))))[:n_pick]
        for si in sorted(picked):
            path, idx, kind = slots[si]
            # walk to the op
            p = prog
            for j, i in enumerate(path):
                op = p["ops"][i]
                if j < len(path) - 1:
                    p = op[1]
            same = [k for k, kk in enumerate(kinds) if kk == kind]
            if same and (len(values) >= max_params or draw(st.integers(0, 2)) == 0):
                pid = draw(st.sampled_from(same))
            else:
                pid = len(values)
                values.append(op[idx])
                kinds.append(kind)
            op[idx] = {"p": pid}
    return {"prog": prog, "values": values, "kinds": kinds}


@st.composite
def swap_heavy_program(draw, min_n=3, max_n=6, max_ops=12):
    n = draw(st.integers(min_n, max_n))
    ops = []
    for _ in range(draw(st.integers(3, max_ops))):
        r = draw(st.integers(0, 10))
        if r < 5:
            ops.append(draw(op_swaps(n)))
        elif r == 10:
            # a plain group whose content is (mostly) mode swaps: swaps outside it must not be merged through it
            k = draw(st.integers(2, n))
            sub_ops = [draw(op_swaps(k)) if draw(st.integers(0, 3)) else draw(primitive(k, False))
                       for _ in range(draw(st.integers(1, 3)))]
            ops.append(["add", {"n": k, "ops": sub_ops}, draw(st.integers(0, n - k)), True,
                        draw(st.sampled_from([None, "swaps"]))])
        else:
            ops.append(draw(primitive(n, True)))
    return {"n": n, "ops": ops}


@st.composite
def fully_heralded_program(draw, max_n=3, lossy=True, max_photons=1):
    """Every mode of the circuit is heralded: the user-visible state is empty."""
    prog = draw(flat_program(min_n=1, max_n=max_n, max_ops=5, lossy=lossy))
    n = prog["n"]
    outs = list(draw(st.permutations(range(n))))
    order = list(draw(st.permutations(range(n))))
    ops = list(prog["ops"])
    for i in order:
        ops.insert(draw(st.integers(0, len(ops))), ["herald", draw(st.integers(0, max_photons)), i, outs[i]])
    return {"n": n, "ops": ops}


@st.composite
def nested_group_tree(draw, lossy=False):
    """inner circuit added GROUPED at a non-zero mode of a herald-free middle circuit, which is then added
    UNGROUPED (groups kept and shifted) at a non-zero mode of an outer circuit that may own ancillas."""
    ki = draw(st.integers(1, 2))
    inner = {"n": ki, "ops": draw(st.lists(primitive(ki, lossy), min_size=1, max_size=3))}
    km = draw(st.integers(ki + 1, 4))
    mops = draw(st.lists(primitive(km, lossy), max_size=2))
    mops.append(["add", inner, draw(st.integers(1, km - ki)), True, draw(st.sampled_from([None, "inner"]))])
    mops += draw(st.lists(primitive(km, lossy), max_size=2))
    mid = {"n": km, "ops": mops}
    n = draw(st.integers(km + 1, 6))
    ops = []
    if draw(st.booleans()):
        child = draw(heralded_child(max_k=3, depth=0, lossy=lossy))
        vis = child["n"] - count_heralds(child)
        ops.append(["add", child, draw(st.integers(0, n - vis)), True, None])
    ops += draw(st.lists(primitive(n, lossy), max_size=2))
    ops.append(["add", mid, draw(st.integers(1, n - km)), draw(st.sampled_from([False, False, True])), None])
    ops += draw(st.lists(primitive(n, lossy), max_size=2))
    return {"n": n, "ops": ops}
