"""
Independent reference semantics for linear-optical circuits.

Shares no code with lightworks: own permanent, own Fock enumeration, own wire
bookkeeping.  Conventions (fixed by the lightworks documentation and tests):
U[i, j] is the amplitude from input mode j to output mode i; components are
multiplied from the left in insertion order.
"""

from __future__ import annotations

import itertools
import math

import numpy as np


# ---------------------------------------------------------------- permanent
def permanent(M: np.ndarray) -> complex:
    """Ryser formula, vectorised over all subsets (n <= 12)."""
    M = np.asarray(M, dtype=complex)
    n = M.shape[0]
    if n == 0:
        return 1.0 + 0j
    if n == 1:
        return complex(M[0, 0])
    if n == 2:
        return complex(M[0, 0] * M[1, 1] + M[0, 1] * M[1, 0])
    bits = ((np.arange(1, 2 ** n)[:, None] >> np.arange(n)[None, :]) & 1)
    sums = bits @ M.T                       # (2^n - 1, n): row sums over subset
    prods = np.prod(sums, axis=1)
    signs = (-1.0) ** (n - bits.sum(axis=1))
    return complex(np.sum(signs * prods))


def permanent_def(M: np.ndarray) -> complex:
    n = M.shape[0]
    tot = 0j
    for p in itertools.permutations(range(n)):
        v = 1 + 0j
        for i in range(n):
            v *= M[i, p[i]]
        tot += v
    return tot


def amplitude(U: np.ndarray, ins, outs) -> complex:
    """<outs| U |ins> for Fock states over all modes of U."""
    ins = list(ins)
    outs = list(outs)
    if sum(ins) != sum(outs):
        return 0j
    x = [i for i, n in enumerate(outs) for _ in range(n)]
    y = [i for i, n in enumerate(ins) for _ in range(n)]
    sub = U[np.ix_(x, y)]
    f = math.prod(math.factorial(i) for i in ins) * math.prod(
        math.factorial(i) for i in outs)
    return permanent(sub) / math.sqrt(f)


def fock(n_modes: int, n_photons: int):
    """All occupation tuples of n_photons in n_modes (own enumeration)."""
    if n_modes == 0:
        if n_photons == 0:
            yield ()
        return
    for k in range(n_photons, -1, -1):
        for rest in fock(n_modes - 1, n_photons - k):
            yield (k, *rest)


def full_distribution(U: np.ndarray, ins) -> dict:
    """Distribution over all output modes of U for Fock input ins."""
    n = sum(ins)
    return {o: abs(amplitude(U, ins, o)) ** 2 for o in fock(U.shape[0], n)}


def marginal_distribution(U: np.ndarray, n_keep: int, ins) -> dict:
    """Distribution over the first n_keep modes (rest traced out)."""
    d: dict = {}
    for o, p in full_distribution(U, ins).items():
        k = tuple(o[:n_keep])
        d[k] = d.get(k, 0.0) + p
    return d


def halmos_dilation(T: np.ndarray) -> np.ndarray:
    """Smallest unitary dilation of a contraction T (n x n): a 2n x 2n unitary whose leading block is T.
    The marginal photon statistics on the first n modes of ANY unitary dilation of T are the same, so this
    gives the exact lossy distribution from the n x n transfer matrix alone, however many loss elements
    the circuit is made of."""
    T = np.asarray(T, dtype=complex)
    n = T.shape[0]
    Uu, sv, Vh = np.linalg.svd(T)
    sv = np.clip(sv, 0.0, 1.0)
    c = np.sqrt(1 - sv ** 2)
    D = np.zeros((2 * n, 2 * n), dtype=complex)
    D[:n, :n] = T
    D[:n, n:] = (Uu * c) @ Uu.conj().T                    # sqrt(I - T T^dagger)
    D[n:, :n] = (Vh.conj().T * c) @ Vh                    # sqrt(I - T^dagger T)
    D[n:, n:] = -T.conj().T
    return D


def lossy_marginal(T: np.ndarray, ins) -> dict:
    """Exact distribution over the n modes of transfer matrix T (a contraction) for Fock input ins."""
    n = T.shape[0]
    return marginal_distribution(halmos_dilation(T), n, list(ins) + [0] * n)


# ---------------------------------------------------------------- unitaries
def haar_unitary(k: int, seed: int) -> np.ndarray:
    rng = np.random.default_rng([seed, k, 7919])
    z = (rng.normal(size=(k, k)) + 1j * rng.normal(size=(k, k))) / math.sqrt(2)
    q, r = np.linalg.qr(z)
    d = np.diag(r)
    return q * (d / np.abs(d))


def make_unitary(kind: str, k: int, seed: int) -> np.ndarray:
    """Deterministic family of k x k unitaries used by the generators."""
    rng = np.random.default_rng([seed, k, 104729])
    if kind == "haar":
        return haar_unitary(k, seed)
    if kind == "identity":
        return np.eye(k, dtype=complex)
    if kind == "perm":
        p = rng.permutation(k)
        m = np.zeros((k, k), dtype=complex)
        m[p, np.arange(k)] = 1
        return m
    if kind == "diag":
        return np.diag(np.exp(1j * rng.uniform(0, 2 * np.pi, k)))
    if kind == "dft":
        w = np.exp(2j * np.pi / k)
        return np.array([[w ** (i * j) for j in range(k)] for i in range(k)]) / math.sqrt(k)
    if kind == "permphase":
        p = rng.permutation(k)
        m = np.zeros((k, k), dtype=complex)
        m[p, np.arange(k)] = np.exp(1j * rng.uniform(0, 2 * np.pi, k))
        return m
    if kind == "block":
        m = np.eye(k, dtype=complex)
        cut = 1 + int(rng.integers(0, max(1, k - 1)))
        m[:cut, :cut] = haar_unitary(cut, seed + 1)
        if k - cut > 0:
            m[cut:, cut:] = haar_unitary(k - cut, seed + 2)
        return m
    if kind == "real":
        z = rng.normal(size=(k, k))
        q, r = np.linalg.qr(z)
        return (q * np.sign(np.diag(r))).astype(complex)
    if kind == "hadamard":
        # Sylvester matrix on the largest power-of-two block, identity elsewhere: all non-zero entries have exactly
        # the same magnitude, so sums of entries cancel exactly in floating point
        b = 1 << (k.bit_length() - 1)
        h = np.array([[1.0]])
        while h.shape[0] < b:
            h = np.block([[h, h], [h, -h]])
        m = np.eye(k, dtype=complex)
        m[:b, :b] = h * (1.0 / math.sqrt(b))
        return m
    if kind.startswith("near"):
        eps = {"near6": 1e-6, "near9": 1e-9, "near12": 1e-12}[kind]
        h = rng.normal(size=(k, k)) + 1j * rng.normal(size=(k, k))
        h = (h + h.conj().T) / 2
        w, v = np.linalg.eigh(h)
        return (v * np.exp(1j * eps * w)) @ v.conj().T
    raise ValueError(kind)


UNITARY_KINDS = ["haar", "identity", "perm", "diag", "dft", "permphase", "block",
                 "real", "near6", "near9", "near12", "hadamard"]


def bs_block(r: float, conv: str) -> np.ndarray:
    """Documented 2x2 beam splitter transformation, theta = acos(sqrt(r))."""
    c = math.sqrt(r)
    s = math.sqrt(max(0.0, 1 - r))
    if conv == "Rx":
        return np.array([[c, 1j * s], [1j * s, c]], dtype=complex)
    if conv == "H":
        return np.array([[c, s], [s, -c]], dtype=complex)
    raise ValueError(conv)


# -------------------------------------------------------------------- wires
class Wires:
    """A circuit as a matrix over wires.

    user    : ordered list of user-addressable wires (what lightworks calls
              modes 0..n-1 of the circuit as seen through its API)
    anc     : private ancilla wires [(wire, n)] created by adding heralded
              sub-circuits; never addressable again
    pairs   : heralds declared on this circuit itself [(in_wire, out_wire, n)]
    loss    : loss wires in insertion order
    """

    def __init__(self, n: int) -> None:
        self.n = n
        self.A = np.eye(n, dtype=complex)
        self.user = list(range(n))
        self.anc: list[tuple[int, int]] = []
        self.pairs: list[tuple[int, int, int]] = []
        self.loss: list[int] = []

    # -- helpers
    @property
    def dim(self) -> int:
        return self.A.shape[0]

    def _grow(self, k: int) -> None:
        d = self.dim
        B = np.eye(d + k, dtype=complex)
        B[:d, :d] = self.A
        self.A = B

    def _embed(self, wires: list[int], block: np.ndarray) -> None:
        E = np.eye(self.dim, dtype=complex)
        for a, wa in enumerate(wires):
            for b, wb in enumerate(wires):
                E[wa, wb] = block[a, b]
        self.A = E @ self.A

    # -- primitives (user numbering)
    def bs(self, a: int, b: int, r: float, conv: str = "Rx", loss: float = 0) -> None:
        self._embed([self.user[a], self.user[b]], bs_block(r, conv))
        if loss > 0:
            self.lossel(a, loss)
            self.lossel(b, loss)

    def ps(self, a: int, phi: float, loss: float = 0) -> None:
        self._embed([self.user[a]], np.array([[np.exp(1j * phi)]]))
        if loss > 0:
            self.lossel(a, loss)

    def lossel(self, a: int, l: float) -> None:
        self._grow(1)
        L = self.dim - 1
        self.loss.append(L)
        t, s = math.sqrt(1 - l), math.sqrt(l)
        self._embed([self.user[a], L], np.array([[t, s], [-s, t]], dtype=complex))

    def swaps(self, d: dict) -> None:
        E = np.zeros((self.dim, self.dim), dtype=complex)
        full = {w: w for w in range(self.dim)}
        for i, j in d.items():
            full[self.user[int(i)]] = self.user[int(j)]
        for i, j in full.items():
            E[j, i] = 1
        self.A = E @ self.A

    def unitary(self, a: int, U: np.ndarray) -> None:
        k = U.shape[0]
        self._embed(self.user[a:a + k], U)

    def herald(self, n: int, i: int, o: int | None = None) -> None:
        o = i if o is None else o
        self.pairs.append((self.user[i], self.user[o], n))

    # -- visible interface
    def vis_in(self) -> list[int]:
        h = {p[0] for p in self.pairs}
        return [w for w in self.user if w not in h]

    def vis_out(self) -> list[int]:
        h = {p[1] for p in self.pairs}
        return [w for w in self.user if w not in h]

    @property
    def n_visible(self) -> int:
        return len(self.vis_in())

    def copy(self) -> "Wires":
        c = Wires(self.n)
        c.A = self.A.copy()
        c.user = list(self.user)
        c.anc = list(self.anc)
        c.pairs = list(self.pairs)
        c.loss = list(self.loss)
        return c

    # -- composition
    def add(self, S: "Wires", m: int) -> None:
        """Wire sub-circuit S in at user mode m (the statement of C02)."""
        sin, sout = S.vis_in(), S.vis_out()
        k = len(sin)
        W = self.user[m:m + k]
        if len(W) != k:
            raise ValueError("model: addition outside mode range")
        spairs = [(w, w, n) for (w, n) in S.anc] + list(S.pairs)
        d0 = self.dim
        self._grow(len(spairs) + len(S.loss))
        new_anc = list(range(d0, d0 + len(spairs)))
        new_loss = list(range(d0 + len(spairs), d0 + len(spairs) + len(S.loss)))
        inmap: dict[int, int] = {}
        outmap: dict[int, int] = {}
        for i, w in enumerate(sin):
            inmap[w] = W[i]
        for i, w in enumerate(sout):
            outmap[w] = W[i]
        for (wi, wo, _n), a in zip(spairs, new_anc):
            inmap[wi] = a
            outmap[wo] = a
        for lw, nl in zip(S.loss, new_loss):
            inmap[lw] = nl
            outmap[lw] = nl
        if len(inmap) != S.dim or len(outmap) != S.dim:
            raise AssertionError("model: wire maps incomplete")
        tin = [inmap[w] for w in range(S.dim)]
        tout = [outmap[w] for w in range(S.dim)]
        E = np.eye(self.dim, dtype=complex)
        for w in set(tin) | set(tout):
            E[w, w] = 0
        for o in range(S.dim):
            for i in range(S.dim):
                E[tout[o], tin[i]] = S.A[o, i]
        self.A = E @ self.A
        self.loss += new_loss
        for (_wi, _wo, n), a in zip(spairs, new_anc):
            self.anc.append((a, n))

    # -- observables
    def herald_photons(self) -> int:
        return sum(n for _, n in self.anc) + sum(p[2] for p in self.pairs)

    def full_in(self, vin) -> list[int]:
        ins = [0] * self.dim
        for w, n in self.anc:
            ins[w] = n
        for wi, _wo, n in self.pairs:
            ins[wi] = n
        for w, x in zip(self.vis_in(), vin, strict=True):
            ins[w] = x
        return ins

    def full_out(self, vout, loss_occ=None) -> list[int]:
        outs = [0] * self.dim
        for w, n in self.anc:
            outs[w] = n
        for _wi, wo, n in self.pairs:
            outs[wo] = n
        for w, x in zip(self.vis_out(), vout, strict=True):
            outs[w] = x
        if loss_occ is not None:
            for w, x in zip(self.loss, loss_occ, strict=True):
                outs[w] = x
        return outs

    def heralded_amp(self, vin, vout) -> complex:
        """Amplitude visible-in -> visible-out, heralds satisfied, no photon
        in any loss wire."""
        return amplitude(self.A, self.full_in(vin), self.full_out(vout))


def real_heralded_amp(circ, vin, vout) -> complex:
    """Same observable computed from a real lightworks circuit's public
    U_full and heralds with the reference permanent."""
    U = circ.U_full
    h = circ.heralds
    d = U.shape[0]
    n = circ.n_modes
    ins = [0] * d
    outs = [0] * d
    for m, x in h["input"].items():
        ins[m] = x
    for m, x in h["output"].items():
        outs[m] = x
    vi = [m for m in range(n) if m not in h["input"]]
    vo = [m for m in range(n) if m not in h["output"]]
    for m, x in zip(vi, vin, strict=True):
        ins[m] = x
    for m, x in zip(vo, vout, strict=True):
        outs[m] = x
    return amplitude(U, ins, outs)


# ------------------------------------------------------------- detector
def detector_response(dist: dict, efficiency: float, p_dark: float,
                      photon_counting: bool) -> dict:
    """Exact image of a distribution over full-mode states under: each photon
    detected independently with `efficiency`; then at most one dark count per
    mode with probability p_dark; then threshold detection."""
    out: dict = {}
    for s, p in dist.items():
        if p == 0:
            continue
        per_mode = []
        for n in s:
            opts: dict = {}
            for k in range(n + 1):
                pk = math.comb(n, k) * efficiency ** k * (1 - efficiency) ** (n - k)
                if pk == 0:
                    continue
                for dk, pd in ((0, 1 - p_dark), (1, p_dark)):
                    if pd == 0:
                        continue
                    v = k + dk
                    if not photon_counting:
                        v = 1 if v >= 1 else 0
                    opts[v] = opts.get(v, 0.0) + pk * pd
            per_mode.append(list(opts.items()))
        for combo in itertools.product(*per_mode):
            q = p
            for _, pv in combo:
                q *= pv
            key = tuple(v for v, _ in combo)
            out[key] = out.get(key, 0.0) + q
    return out


# --------------------------------------------------------------- source
def purity_p1(purity: float) -> float:
    """Documented single-photon probability for a given purity (g2 = 1 - purity
    with P(2) = p2, solved from g2 = 2 p2 / (p1 + 2 p2)^2, p1 + p2 = 1)."""
    if purity >= 1:
        return 1.0
    g2 = 1 - purity
    # (p1 + 2 p2) = 2 - p1 = mu ; g2 mu^2 = 2 (1 - p1) = 2 (mu - 1)
    # g2 mu^2 - 2 mu + 2 = 0  ->  mu = (1 - sqrt(1 - 2 g2)) / g2
    mu = (1 - math.sqrt(1 - 2 * g2)) / g2
    return 2 - mu


def photon_outcomes(brightness: float, purity: float, indist: float) -> list:
    """Six documented per-photon emission outcomes: list of (labels, prob),
    label 'i' = indistinguishable, 'd' = distinguishable intended photon,
    'n' = distinguishable noise photon."""
    nu = brightness
    pi_ = math.sqrt(indist)
    pd = 1 - pi_
    p1 = purity_p1(purity)
    p2 = 1 - p1
    return [
        ((), 1 - nu * (p1 + p2 * nu + 2 * (1 - nu) * p2)),
        (("i",), pi_ * nu * (p1 + (1 - nu) * p2)),
        (("d",), pd * nu * (p1 + (1 - nu) * p2)),
        (("n",), nu * (1 - nu) * p2),
        (("i", "n"), nu ** 2 * pi_ * p2),
        (("d", "n"), nu ** 2 * pd * p2),
    ]


def convolve(d1: dict, d2: dict) -> dict:
    out: dict = {}
    for s1, p1 in d1.items():
        for s2, p2 in d2.items():
            k = tuple(a + b for a, b in zip(s1, s2))
            out[k] = out.get(k, 0.0) + p1 * p2
    return out


def source_mixture(U: np.ndarray, n_keep: int, full_in, brightness: float,
                   purity: float, indist: float, threshold: float = 0.0) -> dict:
    """Output distribution over the first n_keep modes for an imperfect
    source feeding the Fock input full_in (over the first modes of U; further
    modes of U are vacuum)."""
    d = U.shape[0]
    photons = [m for m, n in enumerate(full_in) for _ in range(n)]
    outcomes = [(o, p) for o, p in photon_outcomes(brightness, purity, indist) if p > 0]
    single_cache: dict = {}

    def single(mode: int) -> dict:
        if mode not in single_cache:
            ins = [0] * d
            ins[mode] = 1
            single_cache[mode] = marginal_distribution(U, n_keep, ins)
        return single_cache[mode]

    group_cache: dict = {}
    configs: dict = {}
    # enumerate all emission configurations, merge those that are equivalent
    for combo in itertools.product(outcomes, repeat=len(photons)):
        p = 1.0
        indis = [0] * d
        singles = []
        for (labs, pl), mode in zip(combo, photons):
            p *= pl
            for lab in labs:
                if lab == "i":
                    indis[mode] += 1
                else:
                    singles.append(mode)
        if sum(indis) == 1:
            # a lone "indistinguishable" photon has nothing to interfere with:
            # physically the same configuration as a distinguishable one
            singles.append(indis.index(1))
            indis = [0] * d
        key = (tuple(indis), tuple(sorted(singles)))
        configs[key] = configs.get(key, 0.0) + p
    if threshold:
        configs = {k: p for k, p in configs.items() if p >= threshold}
        if not configs:
            raise ZeroDivisionError("threshold removes every emission configuration")
        tot = sum(configs.values())
        configs = {k: p / tot for k, p in configs.items()}
    result: dict = {}
    for (indis, singles), p in configs.items():
        if indis not in group_cache:
            group_cache[indis] = marginal_distribution(U, n_keep, list(indis))
        dist = group_cache[indis]
        for mode in singles:
            dist = convolve(dist, single(mode))
        for k, q in dist.items():
            result[k] = result.get(k, 0.0) + p * q
    return result


# ------------------------------------------------------------ self tests
def selftest() -> None:
    rng = np.random.default_rng(12345)
    for n in range(0, 7):
        M = rng.normal(size=(n, n)) + 1j * rng.normal(size=(n, n))
        a, b = permanent(M), permanent_def(M)
        if abs(a - b) > 1e-9 * max(1.0, abs(b)):
            raise RuntimeError(f"refmodel: permanent self-test failed n={n}")
    # Fock enumeration counts
    for N, n in [(3, 2), (4, 3), (1, 5), (5, 0)]:
        if len(list(fock(N, n))) != math.comb(N + n - 1, n):
            raise RuntimeError("refmodel: fock self-test failed")
    # HOM: two photons on a 50:50 beam splitter never coincide
    U = bs_block(0.5, "Rx")
    if abs(amplitude(U, [1, 1], [1, 1])) > 1e-12:
        raise RuntimeError("refmodel: HOM self-test failed")
    if abs(abs(amplitude(U, [1, 1], [2, 0])) ** 2 - 0.5) > 1e-12:
        raise RuntimeError("refmodel: bunching self-test failed")
    # Wires.add: flat child equals embedding by hand
    V = haar_unitary(2, 3)
    p = Wires(3)
    c = Wires(2)
    c.unitary(0, V)
    p.add(c, 1)
    E = np.eye(3, dtype=complex)
    E[1:, 1:] = V
    if not np.allclose(p.A, E):
        raise RuntimeError("refmodel: flat add self-test failed")
    # heralded child: 3-mode unitary, herald in mode 0 -> out mode 2 (0 photons)
    W = haar_unitary(3, 5)
    c = Wires(3)
    c.unitary(0, W)
    c.herald(0, 0, 2)
    p = Wires(2)
    p.add(c, 0)
    # visible in: child modes 1,2 <- parent 0,1 ; visible out: child 0,1 -> parent 0,1
    for i in range(2):
        for o in range(2):
            vin = [0, 0]
            vout = [0, 0]
            vin[i] = 1
            vout[o] = 1
            if abs(p.heralded_amp(vin, vout) - W[o, i + 1]) > 1e-12:
                raise RuntimeError("refmodel: heralded add self-test failed")
    # nested: grandparent <- parent(with ancilla) ; ancilla stays private
    g = Wires(3)
    g.add(p, 1)
    vin, vout = [0, 1, 0], [0, 0, 1]
    if abs(g.heralded_amp(vin, vout) - W[1, 1]) > 1e-12:
        raise RuntimeError("refmodel: nested add self-test failed")
    if len(g.anc) != 1 or g.n_visible != 3:
        raise RuntimeError("refmodel: nested ancilla bookkeeping failed")
    # lossy child
    c = Wires(2)
    c.lossel(0, 0.36)
    p = Wires(2)
    p.add(c, 0)
    if abs(p.heralded_amp([1, 0], [1, 0]) - 0.8) > 1e-12 or len(p.loss) != 1:
        raise RuntimeError("refmodel: lossy add self-test failed")
    # Halmos dilation: unitary, leading block T, same marginal as an explicit loss dilation
    w = Wires(2)
    w.bs(0, 1, 0.3)
    w.lossel(0, 0.4)
    w.ps(1, 0.7)
    w.lossel(1, 0.2)
    w.bs(1, 0, 0.6, "H")
    T = w.A[:2, :2]
    D = halmos_dilation(T)
    if np.abs(D.conj().T @ D - np.eye(4)).max() > 1e-12:
        raise RuntimeError("refmodel: Halmos dilation not unitary")
    a = marginal_distribution(w.A, 2, [2, 1, 0, 0])
    b = lossy_marginal(T, [2, 1])
    if max(abs(a.get(k, 0) - b.get(k, 0)) for k in set(a) | set(b)) > 1e-12:
        raise RuntimeError("refmodel: Halmos marginal self-test failed")
    # detector closed forms, one photon
    d = detector_response({(1,): 1.0}, 0.7, 0.1, True)
    exp = {0: 0.3 * 0.9, 1: 0.7 * 0.9 + 0.3 * 0.1, 2: 0.7 * 0.1}
    for k, v in exp.items():
        if abs(d.get((k,), 0) - v) > 1e-12:
            raise RuntimeError("refmodel: detector self-test failed")
    d = detector_response({(2,): 1.0}, 1.0, 0.0, False)
    if d != {(1,): 1.0}:
        raise RuntimeError("refmodel: threshold self-test failed")
    # source: outcomes sum to one; g2 = 1 - purity
    for nu, pu, ind in [(1, 1, 1), (0.7, 0.9, 0.8), (0.3, 0.6, 0.0), (1.0, 0.75, 0.5)]:
        oc = photon_outcomes(nu, pu, ind)
        if abs(sum(p for _, p in oc) - 1) > 1e-12:
            raise RuntimeError("refmodel: source outcomes not normalised")
    p1 = purity_p1(0.9)
    p2 = 1 - p1
    if abs(2 * p2 / (p1 + 2 * p2) ** 2 - 0.1) > 1e-12:
        raise RuntimeError("refmodel: purity self-test failed")
