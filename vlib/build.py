"""Interpret a program (vlib.gen) as a real lightworks circuit and as a
reference-model Wires object."""

from __future__ import annotations

import json
import numpy as np

from .refmodel import Wires, make_unitary


def _val(x, params):
    if isinstance(x, dict):
        return params[x["p"]]
    return x


def _mval(x, values):
    if isinstance(x, dict):
        return values[x["p"]]
    return x


def apply_real(c, op, params=None, cast=None, phase_cast=None, cache=None):
    """Apply one op to the real circuit c; returns the (possibly new) circuit.
    cast: optional function applied to every mode argument (e.g. numpy.int64).
    phase_cast: optional function applied to plain-number phases of phase shifters (e.g. numpy.float32)."""
    import lightworks as lw
    if cast is not None:
        op = _cast_modes(op, cast)
    k = op[0]
    if phase_cast is not None and k == "ps" and not isinstance(op[2], dict):
        op = list(op)
        op[2] = phase_cast(op[2])
    if k == "bs":
        _, m1, m2, r, conv, loss = op
        kw = {}
        if m2 is not None:
            kw["mode_2"] = m2
        c.bs(m1, reflectivity=_val(r, params), loss=_val(loss, params),
             convention=conv, **kw)
    elif k == "ps":
        c.ps(op[1], _val(op[2], params), loss=_val(op[3], params))
    elif k == "loss":
        c.loss(op[1], _val(op[2], params))
    elif k == "barrier":
        c.barrier(None if op[1] is None else list(op[1]))
    elif k == "swaps":
        f_ = cast or int
        d = {f_(a): f_(b) for a, b in op[1]}
        c.mode_swaps(d)
        if len(d) % 2 == 0:
            d.clear()                                  # the caller recycles its dictionary afterwards
    elif k == "unitary":
        _, m, kind, kk, seed = op
        U = make_unitary(kind, kk, seed)
        # with or without a label, mode given or defaulted (a function of the op); the documented argument type is
        # numpy.ndarray - nested lists are not accepted by lw.Unitary and are not generated
        u = lw.Unitary(U, label=["U1", "", "U", "long label for a unitary", "θ", "U5", "ab"][seed % 7]) if seed % 2 \
            else lw.Unitary(U)
        if m == 0 and seed % 5 == 0:
            c.add(u)                                   # mode defaulted
        else:
            c.add(u, m)
        if seed % 4 == 1:
            U[...] = 0                                 # the caller re-uses its buffer afterwards
    elif k == "herald":
        if op[3] is None:
            c.herald(op[1], op[2])
        else:
            c.herald(op[1], op[2], op[3])
    elif k == "add":
        # the same sub-program appearing twice in one program is ONE circuit object added twice (a user re-using a
        # building block); an addition must not change its argument, so this is equivalent to two fresh objects
        key = json.dumps(op[1], sort_keys=True, default=str) if cache is not None else None
        if key is not None and key in cache:
            child = cache[key]
        else:
            child = build_real(op[1], params, cast, phase_cast, cache)
            if key is not None:
                cache[key] = child
        c.add(child, op[2], group=bool(op[3]), name=op[4])
    elif k == "plus":
        c = c + build_real(op[1], params, cast, phase_cast)
    elif k == "gate":
        # ["gate", name, kwargs, mode] - a circuit from lightworks.qubit
        c.add(make_gate(op[1], op[2]), op[3])
    else:
        raise ValueError(f"unknown op {k}")
    return c


def _cast_modes(op, cast):
    op = list(op)
    k = op[0]
    if k == "bs":
        op[1] = cast(op[1])
        op[2] = None if op[2] is None else cast(op[2])
    elif k in ("ps", "loss", "unitary"):
        op[1] = cast(op[1])
    elif k == "barrier":
        op[1] = None if op[1] is None else [cast(m) for m in op[1]]
    elif k == "herald":
        op[2] = cast(op[2])
        op[3] = None if op[3] is None else cast(op[3])
    elif k == "add":
        op[2] = cast(op[2])
    return op


def make_gate(name, kwargs):
    from lightworks import qubit
    kw = dict(kwargs)
    if name == "SWAP":
        return qubit.SWAP(tuple(kw["qubit_1"]), tuple(kw["qubit_2"]))
    if name in ("Rx", "Ry", "Rz", "P"):
        return getattr(qubit, name)(kw["theta"])
    return getattr(qubit, name)(**kw)


def build_real(prog, params=None, cast=None, phase_cast=None, cache=None):
    import lightworks as lw
    if cache is None:
        cache = {}
    c = lw.Circuit(prog["n"])
    for op in prog["ops"]:
        c = apply_real(c, op, params, cast, phase_cast, cache)
    return c


def apply_model(w: Wires, op, values=None) -> Wires:
    k = op[0]
    if k == "bs":
        _, m1, m2, r, conv, loss = op
        if m2 is None:
            m2 = m1 + 1
        w.bs(m1, m2, _mval(r, values), conv, _mval(loss, values))
    elif k == "ps":
        w.ps(op[1], _mval(op[2], values), _mval(op[3], values))
    elif k == "loss":
        w.lossel(op[1], _mval(op[2], values))
    elif k == "barrier":
        pass
    elif k == "swaps":
        w.swaps({int(a): int(b) for a, b in op[1]})
    elif k == "unitary":
        _, m, kind, kk, seed = op
        w.unitary(m, make_unitary(kind, kk, seed))
    elif k == "herald":
        w.herald(op[1], op[2], op[3])
    elif k == "add":
        w.add(build_model(op[1], values), op[2])
    elif k == "plus":
        w.add(build_model(op[1], values), 0)
    else:
        raise ValueError(f"unknown op {k}")
    return w


def build_model(prog, values=None) -> Wires:
    w = Wires(prog["n"])
    for op in prog["ops"]:
        w = apply_model(w, op, values)
    return w


def snapshot(c) -> tuple:
    """Observable state of a real circuit (used by 'unchanged' oracles)."""
    try:
        U = c.U_full
        ushape, ubytes = U.shape, np.ascontiguousarray(U).tobytes()
    except Exception as e:  # noqa: BLE001  (a circuit that no longer compiles is also a state)
        ushape, ubytes = ("uncompilable", type(e).__name__), b""
    h = c.heralds
    return (
        c.n_modes, c.input_modes,
        tuple(sorted(h["input"].items())), tuple(sorted(h["output"].items())),
        ushape, ubytes,
        len(c._get_circuit_spec()), tuple(c._internal_modes),
    )


def snapshot_diff(a: tuple, b: tuple) -> str:
    names = ["n_modes", "input_modes", "in_heralds", "out_heralds", "U_shape",
             "U_full", "spec_len", "internal_modes"]
    return ",".join(n for n, x, y in zip(names, a, b) if x != y)
