"""A second interpreter with a different PYTHONHASHSEED, kept alive per worker process.

"A fixed seed reproduces the same result" (C07), "the same seed gives the same mapped circuit" (C14) and the
reproducibility of the seeded helpers (C18) are statements a user relies on *across runs of a program*: each run is
a new interpreter, and every interpreter salts `hash()` of strings differently and may iterate sets of strings in
another order. The checks themselves run under PYTHONHASHSEED=0 so that a case is a pure function of the code and
VERIF_SEED; this module supplies the second run: `ask(module, func, arg)` evaluates `module.func(arg)` in a child
interpreter started with PYTHONHASHSEED=<PEER_HASHSEED> and returns its JSON result, for comparison with the value the
same function gives in this process. The child is started on first use and answers one JSON line per request.

Run as a script it is the child: python vlib/peer.py
"""
from __future__ import annotations

import atexit
import importlib
import json
import os
import subprocess
import sys
import traceback

PEER_HASHSEED = "2718281"
_proc: subprocess.Popen | None = None


class PeerError(RuntimeError):
    """The child could not evaluate the request for a reason that is not lightworks' doing (harness error)."""


def _start() -> subprocess.Popen:
    global _proc
    if _proc is not None and _proc.poll() is None:
        return _proc
    env = dict(os.environ, PYTHONHASHSEED=PEER_HASHSEED)
    _proc = subprocess.Popen([sys.executable, os.path.abspath(__file__)], stdin=subprocess.PIPE,
                             stdout=subprocess.PIPE, env=env, text=True, bufsize=1)
    atexit.register(stop)
    return _proc


def stop() -> None:
    global _proc
    if _proc is not None:
        try:
            _proc.stdin.close()
            _proc.wait(timeout=5)
        except Exception:  # noqa: BLE001
            _proc.kill()
        _proc = None


def ask(module: str, func: str, arg):
    """Evaluate module.func(arg) in the peer interpreter. Returns ("ok", value) or ("raised", "Type: message")
    when the function raised from inside lightworks; anything else is a PeerError."""
    p = _start()
    p.stdin.write(json.dumps({"module": module, "func": func, "arg": arg}) + "\n")
    p.stdin.flush()
    line = p.stdout.readline()
    if not line:
        stop()
        raise PeerError("peer interpreter died")
    r = json.loads(line)
    if "ok" in r:
        return "ok", r["ok"]
    if "raised" in r:
        return "raised", r["raised"]
    raise PeerError(r.get("error", "?"))


def _serve() -> None:
    sys.path.insert(0, os.path.dirname(os.path.dirname(os.path.abspath(__file__))))
    from vlib import harness
    harness.bootstrap()
    out = sys.stdout
    sys.stdout = sys.stderr            # nothing the library prints may corrupt the protocol
    for line in sys.stdin:
        try:
            req = json.loads(line)
            fn = getattr(importlib.import_module(req["module"]), req["func"])
            try:
                res = {"ok": fn(req["arg"])}
            except Exception as e:  # noqa: BLE001
                if harness.from_lightworks(e):
                    res = {"raised": f"{type(e).__name__}: {e}"}
                else:
                    res = {"error": traceback.format_exc()[-1500:]}
            out.write(json.dumps(res) + "\n")
        except Exception:  # noqa: BLE001
            out.write(json.dumps({"error": traceback.format_exc()[-1500:]}) + "\n")
        out.flush()


if __name__ == "__main__":
    _serve()
