#!/usr/bin/env python3
"""Entry point:  run_check.py <Cxx> [--tier quick|thorough] [--replay file]"""
import importlib
import sys
import traceback

sys.path.insert(0, __import__("os").path.dirname(__import__("os").path.abspath(__file__)))
from vlib import harness  # noqa: E402


def main() -> int:
    if len(sys.argv) < 2:
        print("usage: run_check.py <Cxx> [--tier quick|thorough] [--replay f]", file=sys.stderr)
        return 2
    prop = sys.argv[1].upper()
    try:
        harness.bootstrap()
        module = importlib.import_module(f"checks.{prop.lower()}")
        return harness.main_check(module, sys.argv[2:])
    except SystemExit:
        raise
    except BaseException:  # noqa: BLE001
        traceback.print_exc()
        print(f"HARNESS-ERROR property={prop}", file=sys.stderr)
        return 2


if __name__ == "__main__":
    sys.exit(main())
