"""C05 - Simulator, Sampler, Analyzer and QuickSampler tell one consistent story."""
import math

import numpy as np
from hypothesis import strategies as st

from vlib import gen, postsel
from vlib.build import build_real
from vlib.harness import Sub, Violation, call
from vlib.refmodel import fock, marginal_distribution

PROPERTY = "C05"
RULE = ("Generated circuits with 0-3 heralds (0-2 photons, via nested additions and external heralds with "
        "in != out modes) and optional loss; 1-3 inputs of equal photon number 0-3; post-selection None / "
        "PostSelection with 1-3 rules (also several rules on one mode with multi_rules, also handed over empty and "
        "completed afterwards) / Python predicate (bare or wrapped in PostSelectionFunction); generated expected mapping; both detector modes of "
        "the QuickSampler. Oracle: exact distribution from own permanent on the real U_full (loss traced out), "
        "conditioned/renormalised as C05 states, plus differential relations between the four objects. "
        "Non-trivial = (a herald carrying a photon or a loss element) and a post-selection that accepts and "
        "rejects at least one output of non-negligible probability; distinct = distinct case JSON.")
ASSUMPTIONS = [
    "probability tolerance n_patterns*1e-9 + 1e-9 (documented truncation per pattern); QuickSampler compared with "
    "tolerance (number of candidate outputs) x 2e-9 on the conditional probabilities whenever the accepted mass exceeds 1e-12",
    "QuickSampler with threshold detection only generated for heralds carrying <= 1 photon (the restriction "
    "Sampler itself enforces)",
    "error rate only asserted when the accepted total of every input exceeds 1e-9 (otherwise 0/0)",
]


@st.composite
def gate_story_case(draw):
    """Qubit-library circuits (the canonical heralded / post-selected use)."""
    nq = 2
    prog = draw(gen.gate_program(n_qubits=nq, max_gates=4, max_heralded=1))
    prog, _ = gen.limit_loss(prog, 2)
    basis = st.lists(st.integers(0, 1), min_size=nq, max_size=nq).map(
        lambda b: [x for q in b for x in ((1, 0) if q == 0 else (0, 1))])
    inputs = draw(st.lists(basis, min_size=1, max_size=3, unique_by=tuple))
    psk = draw(st.integers(0, 3))
    if psk == 0:
        ps = None
    elif psk == 1:
        ps = {"rules": [[[0, 1], [1]], [[2, 3], [1]]], "multi": False}
    elif psk == 2:
        ps = {"pred": ["max-le", 1]}
    else:
        ps = draw(postsel.post_selection(4, 2))
    expected = [draw(st.lists(basis, min_size=1, max_size=2)) for _ in inputs]
    return {"prog": prog, "inputs": inputs, "ps": ps, "expected": expected,
            "use_expected": draw(st.booleans()), "single_expected": draw(st.booleans()),
            "pc": draw(st.booleans()), "late_rules": draw(st.booleans()),
            "exp_perm": list(draw(st.permutations(range(len(inputs)))))}


@st.composite
def fully_heralded_case(draw):
    prog = draw(gen.fully_heralded_program(max_n=3))
    prog, _ = gen.limit_loss(prog, 2)
    return {"prog": prog, "inputs": [[]], "ps": None, "expected": [[[]]],
            "use_expected": draw(st.booleans()), "single_expected": draw(st.booleans()),
            "pc": draw(st.booleans()), "exp_perm": [0]}


@st.composite
def story_case(draw):
    kind = draw(st.integers(0, 3))
    if kind == 0:
        prog = draw(gen.program(min_n=2, max_n=5, depth=2, max_ops=6, max_herald_photons=2))
    elif kind == 1:
        prog = draw(gen.addition_tree(max_n=4, max_adds=3))
    elif kind == 2:
        prog = draw(gen.addition_tree(max_n=4, max_adds=2, lossy=False))
    else:
        prog = draw(gen.flat_program(min_n=2, max_n=5, max_ops=7))
    prog, _ = gen.limit_loss(prog, 4)
    prog = gen.cap_herald_photons(prog, cap=4000)       # herald photons are part of the program: bounded by construction
    nv = prog["n"] - gen.count_heralds(prog)
    nph = gen.fit_photons(prog, draw(st.sampled_from([0, 1, 2, 2, 3, 3])), cap=4000)
    inputs = draw(st.lists(gen.fock_state(nv, nph), min_size=1, max_size=3, unique_by=tuple))
    ps = draw(postsel.post_selection(nv, nph))
    expected = [draw(st.lists(gen.fock_state(nv, nph), min_size=1, max_size=2)) for _ in inputs]
    use_expected = draw(st.booleans())
    single_expected = draw(st.booleans())
    return {"prog": prog, "inputs": inputs, "ps": ps, "expected": expected,
            "use_expected": use_expected, "single_expected": single_expected,
            "pc": draw(st.booleans()), "late_rules": draw(st.booleans()),
            "exp_perm": list(draw(st.permutations(range(len(inputs)))))}


@st.composite
def heavy_loss_case(draw):
    """Dense interferometer followed by heavy loss on every mode: the no-loss branch has probability
    1e-4 .. 1e-8, each individual output far less."""
    n = draw(st.integers(3, 5))
    ops = [["unitary", 0, "haar", n, draw(st.integers(0, 10 ** 6))]]
    for m in range(n):
        ops.append(["loss", m, draw(st.floats(0.9, 0.995))])
    nph = draw(st.integers(2, 3))
    return {"prog": {"n": n, "ops": ops}, "input": draw(gen.fock_state(n, nph)), "pc": draw(st.booleans())}


def run_heavy_loss(case):
    """QuickSampler = exact distribution conditioned on no lost photon, whatever the absolute scale."""
    import lightworks as lw
    from lightworks import emulator
    from vlib.refmodel import lossy_marginal
    c = call("build", build_real, case["prog"])
    vin = list(case["input"])
    nph = sum(vin)
    ref = lossy_marginal(c.U, vin)
    cond = {o: p for o, p in ref.items() if sum(o) == nph and (case["pc"] or max(o) <= 1)}
    mass = sum(cond.values())
    if mass < 1e-30:
        return {"nontrivial": False, "labels": ["no-accepted-mass"]}
    qs = emulator.QuickSampler(c, lw.State(vin), photon_counting=case["pc"])
    d = call("QuickSampler.probability_distribution", lambda: qs.probability_distribution)
    d = {tuple(k): v for k, v in d.items()}
    tol = len(cond) * 1e-9 + 1e-9
    for o in set(d) | set(cond):
        q, r = d.get(o, 0.0), cond.get(o, 0.0) / mass
        if not abs(q - r) <= tol:
            raise Violation(f"QuickSampler P({list(o)}) = {q:.8g}, exact distribution conditioned on no lost photon "
                            f"gives {r:.8g} (no-loss probability {mass:.3g})", key="quicksampler-conditional")
    return {"nontrivial": True, "labels": [f"no-loss-mass~1e{int(math.floor(math.log10(mass)))}"]}


def full_state(vis, heralds, n_modes):
    it = iter(vis)
    return tuple(heralds[m] if m in heralds else next(it) for m in range(n_modes))


def run_story(case):
    import lightworks as lw
    from lightworks import emulator
    prog = case["prog"]
    c = call("build", build_real, prog)
    n = c.n_modes
    nv = c.input_modes
    hin, hout = c.heralds["input"], c.heralds["output"]
    U = c.U_full
    nloss = U.shape[0] - n
    inputs = [list(s) for s in case["inputs"]]
    nph = sum(inputs[0])
    ps = case["ps"]
    s_stats = gen.program_stats(prog)
    lossy = s_stats["loss"] > 0
    labels = set()

    # ---- exact reference distributions over the circuit modes
    refs = []
    for vin in inputs:
        fin = list(full_state(vin, hin, n)) + [0] * nloss
        refs.append(marginal_distribution(U, n, fin))
    injected = nph + sum(hin.values())
    tol = max(len(r_) for r_ in refs) * 1e-9 + 1e-9          # one truncation allowance per pattern

    # ---- Sampler distribution per input (already tied to the reference by C04)
    samp = []
    for vin, ref in zip(inputs, refs):
        d = call("Sampler.probability_distribution",
                 lambda v=vin: emulator.Sampler(c, lw.State(list(v))).probability_distribution)
        d = {tuple(k): v for k, v in d.items()}
        samp.append(d)

    # ---- Analyzer
    an = emulator.Analyzer(c)
    late = [] if case.get("late_rules") else None        # hand the object over empty, add the rules afterwards
    real_ps = postsel.to_real(ps, late)
    if real_ps is not None:
        an.post_selection = real_ps
    for add_rule in late or []:
        add_rule()
    states = [lw.State(list(v)) for v in inputs]
    expected = None
    if case["use_expected"]:
        expected = {}
        order = case.get("exp_perm") or list(range(len(states)))
        for k in order:
            st_, outs = states[k], case["expected"][k]
            if case["single_expected"]:
                expected[st_] = lw.State(list(outs[0]))
            else:
                expected[st_] = [lw.State(list(o)) for o in outs]
    # accepted visible outputs by own evaluation
    if lossy:
        cand = [o for k in range(nph + 1) for o in fock(nv, k)]
    else:
        cand = list(fock(nv, nph))
    accepted = [o for o in cand if postsel.accepts(ps, list(o))]
    arg_in = states[0] if len(states) == 1 and case["pc"] else states
    if not accepted:
        try:
            an.analyze(arg_in, expected)
        except ValueError:
            return {"nontrivial": False, "labels": ["post-selection-rejects-everything"]}
        except Exception as e:  # noqa: BLE001
            raise Violation(f"Analyzer with empty accepted set raised {type(e).__name__}: {e}",
                            key="analyzer-empty-wrong-exception") from e
        raise Violation("Analyzer returned although post-selection rejects every output",
                        key="analyzer-empty-accepted")
    res = call("Analyzer.analyze", an.analyze, arg_in, expected)
    outs_r = [tuple(o) for o in res.outputs]
    if sorted(outs_r) != sorted(accepted):
        raise Violation(f"Analyzer outputs ({len(outs_r)}) are not exactly the post-selected basis "
                        f"({len(accepted)})", key="analyzer-output-set")
    arr = np.asarray(res.array, dtype=float)
    if arr.shape != (len(inputs), len(outs_r)):
        raise Violation(f"Analyzer array shape {arr.shape}", key="analyzer-shape")
    acc_tot = []
    for i, ref in enumerate(refs):
        tot = 0.0
        for j, o in enumerate(outs_r):
            fo = full_state(o, hout, n)
            r = ref.get(fo, 0.0)
            tot += r
            if not abs(arr[i, j] - r) <= tol:
                raise Violation(f"Analyzer P({inputs[i]}->{list(o)}) = {arr[i, j]:.10g}, exact heralded "
                                f"probability {r:.10g}", key="analyzer-probability")
            sp = samp[i].get(fo, 0.0)
            if not abs(arr[i, j] - sp) <= 2 * tol:
                raise Violation(f"Analyzer P({inputs[i]}->{list(o)}) = {arr[i, j]:.10g} but Sampler gives "
                                f"{sp:.10g} for the heralded output", key="analyzer-vs-sampler")
        acc_tot.append(tot)
    perf = float(np.mean(acc_tot))
    if not abs(res.performance - perf) <= tol * len(outs_r):
        raise Violation(f"performance {res.performance:.10g}, mean accepted total {perf:.10g}",
                        key="analyzer-performance")
    if expected is not None:
        if not hasattr(res, "error_rate"):
            raise Violation("error_rate missing although expected mapping given", key="analyzer-error-rate-missing")
        if min(acc_tot) > 1e-9:
            errs = []
            for i, ref in enumerate(refs):
                exp_i = case["expected"][i][:1] if case["single_expected"] else case["expected"][i]
                e = 1.0
                for o in sorted({tuple(x) for x in exp_i}):     # the expected outputs form a set
                    if o in accepted:
                        e -= ref.get(full_state(o, hout, n), 0.0) / acc_tot[i]
                errs.append(e)
            er = float(np.mean(errs))
            if not abs(res.error_rate - er) <= 1e-6 + tol * len(outs_r) / min(acc_tot):
                raise Violation(f"error_rate {res.error_rate:.10g}, expected {er:.10g}",
                                key="analyzer-error-rate")
            labels.add("error-rate-checked")
    else:
        if hasattr(res, "error_rate"):
            raise Violation("error_rate present although no expected mapping given",
                            key="analyzer-stale-error-rate")

    # ---- QuickSampler
    pc = case["pc"]
    if pc or max(hin.values(), default=0) <= 1:
        for i, (vin, ref) in enumerate(zip(inputs, refs)):
            cond = {}
            for o in fock(nv, nph):
                if not pc and max(o, default=0) > 1:
                    continue
                if not postsel.accepts(ps, list(o)):
                    continue
                cond[o] = ref.get(full_state(o, hout, n), 0.0)
            mass = sum(cond.values())
            n_cand = len(cond)
            late = [] if case.get("late_rules") else None
            qs = emulator.QuickSampler(c, lw.State(list(vin)), photon_counting=pc,
                                       post_select=postsel.to_real(ps, late))
            for add_rule in late or []:
                add_rule()
            if mass > 1e-12:
                d = call("QuickSampler.probability_distribution", lambda q=qs: q.probability_distribution)
                d = {tuple(k): v for k, v in d.items()}
                qtol = 2 * n_cand * 1e-9 + 1e-9              # threshold is relative to the accepted mass
                for o, r in cond.items():
                    q = d.get(o, 0.0)
                    if not abs(q - r / mass) <= qtol:
                        raise Violation(f"QuickSampler(pc={pc}) P({list(o)}) = {q:.10g}, conditioned Sampler "
                                        f"distribution gives {r / mass:.10g}", key="quicksampler-probability")
                for o in d:
                    if o not in cond:
                        raise Violation(f"QuickSampler(pc={pc}) returned {list(o)}, which is excluded by heralds/"
                                        f"post-selection/threshold/photon conservation", key="quicksampler-support")
                tot = sum(d.values())
                if not abs(tot - 1) <= 1e-9:
                    raise Violation(f"QuickSampler distribution sums to {tot}", key="quicksampler-normalisation")
                labels.add("quicksampler-checked")
            else:
                labels.add("quicksampler-mass<1e-12")

    # ---- Simulator vs Sampler (lossless)
    if not lossy:
        sim = emulator.Simulator(c)
        r = call("Simulator.simulate", sim.simulate, states)
        a = np.asarray(r.array)
        for i in range(len(states)):
            for j, o in enumerate(r.outputs):
                fo = full_state(tuple(o), hout, n)
                p = abs(a[i, j]) ** 2
                sp = samp[i].get(fo, 0.0)
                if not abs(p - sp) <= 2 * tol:
                    raise Violation(f"|Simulator amplitude|^2 {p:.10g} != Sampler probability {sp:.10g} for "
                                    f"{inputs[i]}->{list(o)}", key="simulator-vs-sampler")
        labels.add("simulator-checked")

    hp = sum(hin.values())
    if hp:
        labels.add("herald-photons")
    if lossy:
        labels.add("lossy")
    if hin != hout:
        labels.add("herald-in!=out-modes")
    rejecting = len(accepted) < len(cand)
    if ps is not None and rejecting:
        labels.add("post-selection-rejects-some")
    nt = (hp > 0 or lossy) and ps is not None and rejecting and max(acc_tot) > 1e-6
    return {"nontrivial": nt, "labels": sorted(labels)}


def subs(tier):
    q = tier == "quick"
    return [Sub("story", run_story, strategy=story_case(), examples=120 if q else 1500),
            Sub("fully-heralded", run_story, strategy=fully_heralded_case(), examples=20 if q else 300),
            Sub("heavy-loss-quick-sampler", run_heavy_loss, strategy=heavy_loss_case(), examples=25 if q else 400),
            Sub("gate-story", run_story, strategy=gate_story_case(), examples=40 if q else 500)]
