"""C17 - result containers index consistently and mappings conserve weight."""
import numpy as np
from hypothesis import strategies as st

from vlib.harness import Sub, Violation, call, expect_raises

PROPERTY = "C17"
RULE = ("SimulationResult built from 1-4 distinct input states, 1-8 distinct output states (0-3 photons per mode, "
        "1-5 modes), real non-negative arrays (probability) incl. zeros and empty rows or complex / float / integer "
        "arrays (probability_amplitude); SamplingResult built from a dict of distinct states to non-negative integer "
        "counts. A generated sequence of 1-3 mappings (threshold | parity, plain | inverted) is applied, each one "
        "both to the previous result and to the untouched original. Oracle: pair indexing == nested indexing == "
        "array entry in list order; mapped result == Python model (per-mode function, coinciding images added), "
        "array/outputs mutually consistent, every input's total conserved; the object a mapping was applied to is "
        "unchanged afterwards; amplitude-typed results refuse mappings with ValueError; unknown keys raise KeyError "
        "/ TypeError. Non-trivial = at least two outputs share an image under the first mapping; distinct = case JSON."
        " Tables are given as C-ordered, Fortran-ordered, transposed, strided arrays or nested lists, real values also with complex dtype; the caller overwrites its table afterwards.")
ASSUMPTIONS = ["values compared at 1e-12 relative to the row total", "probability-typed arrays are real (complex "
               "values only for amplitude-typed results)"]


@st.composite
def states(draw, n_modes, count, max_occ=3):
    seen, out = set(), []
    tries = 0
    while len(out) < count and tries < 60:
        tries += 1
        s = tuple(draw(st.lists(st.integers(0, max_occ), min_size=n_modes, max_size=n_modes)))
        if s not in seen:
            seen.add(s)
            out.append(list(s))
    return out


MAPS = st.lists(st.tuples(st.sampled_from(["threshold", "parity"]), st.booleans()), min_size=1, max_size=3)


@st.composite
def sim_case(draw):
    m = draw(st.integers(1, 5))
    ins = draw(states(m, draw(st.integers(1, 4)), 2))
    outs = draw(states(m, draw(st.integers(1, 8)), 3))
    amp = draw(st.integers(0, 3)) == 0
    vals = []
    for _ in ins:
        row = []
        for _ in outs:
            if amp:
                row.append([draw(st.floats(-1, 1)), draw(st.floats(-1, 1))])
            else:
                row.append(draw(st.one_of(st.just(0.0), st.floats(0, 1), st.integers(0, 3))))
        vals.append(row)
    # amplitudes are usually complex numbers, but an amplitude-typed result may just as well hold real data
    # (a real unitary, the real part of a simulation, integers in a hand-built table)
    return {"modes": m, "inputs": ins, "outputs": outs, "amp": amp, "values": vals,
            "amp_dtype": draw(st.sampled_from(["complex", "complex", "float", "int"])),
            # memory layout / container of the table the result is built from
            "layout": draw(st.sampled_from(["C", "C", "F", "T", "strided", "list"])),
            "maps": [list(x) for x in draw(MAPS)]}


def image(s, kind, invert):
    if kind == "threshold":
        v = [1 if x >= 1 else 0 for x in s]
    else:
        v = [x % 2 for x in s]
    if invert:
        v = [1 - x for x in v]
    return tuple(v)


def check_sim_indexing(r, ins, outs, arr, what):
    import lightworks as lw
    if [tuple(s) for s in r.inputs] != [tuple(s) for s in ins] or \
            [tuple(s) for s in r.outputs] != [tuple(s) for s in outs]:
        raise Violation(f"{what}: inputs/outputs lists are not in construction order", key="order")
    A = np.asarray(r.array)
    if A.shape != arr.shape or not np.array_equal(A, arr):
        raise Violation(f"{what}: .array differs from the data it should hold", key="array-changed")
    for i, si in enumerate(ins):
        for j, so in enumerate(outs):
            a = r[lw.State(list(si)), lw.State(list(so))]
            b = r[lw.State(list(si))][lw.State(list(so))]
            if a != arr[i, j] or b != arr[i, j]:
                raise Violation(f"{what}: r[{si},{so}] = {a}, r[{si}][{so}] = {b}, array[{i},{j}] = {arr[i, j]}",
                                key="indexing-inconsistent")


def run_sim(case):
    import lightworks as lw
    from lightworks.emulator.results import SimulationResult
    ins, outs = case["inputs"], case["outputs"]
    if case["amp"]:
        kind = case.get("amp_dtype", "complex")
        if kind == "float":
            arr = np.array([[float(v[0]) for v in row] for row in case["values"]])
        elif kind == "int":
            arr = np.array([[int(round(3 * v[0])) for v in row] for row in case["values"]])
        else:
            arr = np.array([[complex(*v) for v in row] for row in case["values"]])
    else:
        arr = np.array([[float(v) for v in row] for row in case["values"]])
        if case.get("layout") in ("T", "list") and len(ins) % 2 == 0:
            # probabilities computed as amp * conj(amp) arrive with a complex dtype and zero imaginary part
            arr = arr.astype(complex)
    rtype = "probability_amplitude" if case["amp"] else "probability"
    layout = case.get("layout", "C")
    if layout == "F":
        given = np.array(arr, order="F", copy=True)
    elif layout == "T":
        given = np.array(arr.T, order="C", copy=True).T    # a transposed view, as U.T or abs(U.T)**2 would be
    elif layout == "strided":
        big = np.zeros((2 * arr.shape[0], 3 * arr.shape[1]), dtype=arr.dtype)
        big[::2, ::3] = arr
        given = big[::2, ::3]                            # every other row / third column of a larger table
    elif layout == "list":
        given = arr.tolist()
    else:
        given = arr.copy()
    r = call("SimulationResult()", SimulationResult, given, rtype,
             inputs=[lw.State(list(s)) for s in ins], outputs=[lw.State(list(s)) for s in outs])
    check_sim_indexing(r, ins, outs, arr, f"fresh result (table given as {layout})")
    if isinstance(given, np.ndarray):
        given[...] = 7                                   # the caller re-uses its buffer for the next run
        check_sim_indexing(r, ins, outs, arr, "result after the caller overwrote the table it was built from")
    # the reporting methods are read-only: afterwards the result still indexes consistently and holds its data
    import contextlib
    import io
    with contextlib.redirect_stdout(io.StringIO()):
        call("display_as_dataframe()", r.display_as_dataframe)
        call("display_as_dataframe(threshold=0.5)", r.display_as_dataframe, threshold=0.5)
        if case["amp"] and case.get("amp_dtype", "complex") == "complex":
            call("display_as_dataframe(conv_to_probability=True)", r.display_as_dataframe, conv_to_probability=True)
        call("print_outputs()", r.print_outputs)
    check_sim_indexing(r, ins, outs, arr, "result after display_as_dataframe / print_outputs")
    # unknown keys
    missing = lw.State([9] * case["modes"])
    expect_raises("missing-input", (KeyError,), lambda: r[missing])
    expect_raises("missing-output", (KeyError,), lambda: r[lw.State(list(ins[0])), missing])
    expect_raises("bad-key-type", (TypeError, KeyError), lambda: r[tuple(ins[0]), tuple(outs[0])])
    if case["amp"]:
        for kind, inv in case["maps"]:
            fn = r.apply_threshold_mapping if kind == "threshold" else r.apply_parity_mapping
            expect_raises(f"{kind}-mapping-on-amplitudes", (ValueError,), fn, invert=inv)
        return {"nontrivial": True, "labels": ["amplitude-typed", "amplitude-dtype-" + case.get("amp_dtype", "complex")]}
    # model
    model = [{tuple(o): arr[i, j] for j, o in enumerate(outs)} for i in range(len(ins))]
    cur, cur_model = r, model
    shared = False
    for step, (kind, inv) in enumerate(case["maps"]):
        new_model = []
        for row in cur_model:
            d = {}
            for o, v in row.items():
                k = image(o, kind, inv)
                d[k] = d.get(k, 0.0) + v
            new_model.append(d)
        if step == 0 and any(len(d) < len(row) for d, row in zip(new_model, cur_model)):
            shared = True
        fn = cur.apply_threshold_mapping if kind == "threshold" else cur.apply_parity_mapping
        before = np.asarray(cur.array).copy()
        before_outs = [tuple(s) for s in cur.outputs]
        mapped = call(f"apply_{kind}_mapping(invert={inv})", fn, invert=inv)
        # the result the mapping was applied to must be untouched
        if not np.array_equal(np.asarray(cur.array), before) or [tuple(s) for s in cur.outputs] != before_outs:
            raise Violation(f"apply_{kind}_mapping modified the result it was applied to", key="mapping-mutates-source")
        m_outs = [tuple(s) for s in mapped.outputs]
        if len(set(m_outs)) != len(m_outs):
            raise Violation("mapped outputs contain duplicates", key="mapped-duplicates")
        if [tuple(s) for s in mapped.inputs] != [tuple(s) for s in ins]:
            raise Violation("mapped inputs differ from original inputs", key="order")
        A = np.asarray(mapped.array)
        for i, si in enumerate(ins):
            tot = sum(cur_model[i].values())
            want = new_model[i]
            if set(want) - set(m_outs):
                raise Violation(f"mapped result misses images {set(want) - set(m_outs)}", key="image-missing")
            for j, o in enumerate(m_outs):
                v = mapped[lw.State(list(si)), lw.State(list(o))]
                if v != A[i, j]:
                    raise Violation("mapped result: indexing and array disagree", key="indexing-inconsistent")
                if abs(v - want.get(o, 0.0)) > 1e-12 * max(1.0, tot):
                    raise Violation(f"{kind}(invert={inv}): weight of image {o} for input {si} is {v}, model "
                                    f"{want.get(o, 0.0)}", key=f"mapping-weight:{kind}")
            if abs(A[i].sum() - tot) > 1e-12 * max(1.0, tot):
                raise Violation(f"{kind}(invert={inv}): total of input {si} changed from {tot} to {A[i].sum()}",
                                key="total-not-conserved")
        # the same mapping applied to the untouched original still agrees with the model of the original
        if step > 0:
            fn0 = r.apply_threshold_mapping if kind == "threshold" else r.apply_parity_mapping
            m0 = call("mapping on original", fn0, invert=inv)
            for i, si in enumerate(ins):
                d = {}
                for o, v in model[i].items():
                    k = image(o, kind, inv)
                    d[k] = d.get(k, 0.0) + v
                for o in m0.outputs:
                    v = m0[lw.State(list(si)), o]
                    if abs(v - d.get(tuple(o), 0.0)) > 1e-12 * max(1.0, sum(model[i].values())):
                        raise Violation("a mapping applied to the original after an earlier mapping gives different "
                                        "weights", key="mapping-mutates-source")
        cur, cur_model = mapped, new_model
    first_inv = bool(case["maps"][0][1])
    for kind in ("threshold", "parity"):
        for inv in (first_inv, not first_inv):
            fn0 = r.apply_threshold_mapping if kind == "threshold" else r.apply_parity_mapping
            m0 = call(f"apply_{kind}_mapping(invert={inv}) on the original", fn0, invert=inv)
            for i, si in enumerate(ins):
                d = {}
                for o, v in model[i].items():
                    k = image(o, kind, inv)
                    d[k] = d.get(k, 0.0) + v
                got = {tuple(o): m0[lw.State(list(si)), o] for o in m0.outputs}
                for k_ in set(d) | set(got):
                    if abs(got.get(k_, 0.0) - d.get(k_, 0.0)) > 1e-12 * max(1.0, sum(model[i].values())) or \
                            (k_ in d and k_ not in got):
                        raise Violation(f"{kind}(invert={inv}) applied to the original again: image {k_} has weight "
                                        f"{got.get(k_)}, model {d.get(k_)}", key=f"mapping-repeated:{kind}")
    check_sim_indexing(r, ins, outs, arr, "original after mappings")
    return {"nontrivial": shared, "labels": [f"{k}{'-inv' if i else ''}" for k, i in case["maps"]]}


@st.composite
def samp_case(draw):
    m = draw(st.integers(1, 5))
    outs = draw(states(m, draw(st.integers(1, 8)), 4))
    counts = [draw(st.integers(0, 50)) for _ in outs]
    return {"modes": m, "outputs": outs, "counts": counts, "input": draw(states(m, 1, 2))[0],
            "maps": [list(x) for x in draw(MAPS)]}


def run_samp(case):
    import lightworks as lw
    from lightworks.emulator.results import SamplingResult
    outs, counts = case["outputs"], case["counts"]
    data = {lw.State(list(o)): c for o, c in zip(outs, counts)}
    r = call("SamplingResult()", SamplingResult, dict(data), lw.State(list(case["input"])))
    if [tuple(s) for s in r.outputs] != [tuple(o) for o in outs] or len(r) != len(outs):
        raise Violation("SamplingResult outputs differ from construction data", key="order")
    for o, c in zip(outs, counts):
        if r[lw.State(list(o))] != c:
            raise Violation(f"count of {o} is {r[lw.State(list(o))]}, built from {c}", key="indexing-inconsistent")
    if tuple(r.input) != tuple(case["input"]):
        raise Violation("input state not retained", key="input")
    expect_raises("missing", (KeyError,), lambda: r[lw.State([9] * case["modes"])])
    expect_raises("bad-type", (TypeError,), lambda: r[tuple(outs[0])])
    model = {tuple(o): c for o, c in zip(outs, counts)}
    cur, cur_model = r, model
    shared = False
    for step, (kind, inv) in enumerate(case["maps"]):
        nm = {}
        for o, v in cur_model.items():
            k = image(o, kind, inv)
            nm[k] = nm.get(k, 0) + v
        if step == 0 and len(nm) < len(cur_model):
            shared = True
        fn = cur.apply_threshold_mapping if kind == "threshold" else cur.apply_parity_mapping
        before = dict(cur)
        mapped = call(f"apply_{kind}_mapping(invert={inv})", fn, invert=inv)
        if dict(cur) != before:
            raise Violation("mapping modified the sampling result it was applied to", key="mapping-mutates-source")
        got = {tuple(k): v for k, v in mapped.items()}
        if got != nm:
            raise Violation(f"{kind}(invert={inv}) on sampling result: {got}, model {nm}", key=f"mapping-weight:{kind}")
        if sum(got.values()) != sum(cur_model.values()):
            raise Violation("total count not conserved", key="total-not-conserved")
        if tuple(mapped.input) != tuple(case["input"]):
            raise Violation("mapped sampling result lost its input", key="input")
        cur, cur_model = mapped, nm
    # the same mapping kind on the same (original) object with both invert values, in an order fixed by the case
    import contextlib
    import io
    with contextlib.redirect_stdout(io.StringIO()):
        call("SamplingResult.display_as_dataframe()", r.display_as_dataframe)
        call("SamplingResult.print_outputs()", r.print_outputs)
    first_inv = bool(case["maps"][0][1])
    for kind in ("threshold", "parity"):
        for inv in (first_inv, not first_inv, first_inv):
            want = {}
            for o, v in model.items():
                k = image(o, kind, inv)
                want[k] = want.get(k, 0) + v
            fn = r.apply_threshold_mapping if kind == "threshold" else r.apply_parity_mapping
            got = {tuple(k): v for k, v in call(f"apply_{kind}_mapping(invert={inv})", fn, invert=inv).items()}
            if got != want:
                raise Violation(f"{kind}(invert={inv}) on a sampling result that was mapped before with the other "
                                f"invert value: {got}, model {want}", key=f"mapping-repeated:{kind}")
    if {tuple(k): v for k, v in r.items()} != model:
        raise Violation("sampling result changed by mappings / reporting methods", key="mapping-mutates-source")
    return {"nontrivial": shared, "labels": [f"{k}{'-inv' if i else ''}" for k, i in case["maps"]]}


def subs(tier):
    q = tier == "quick"
    return [
        Sub("simulation-result", run_sim, strategy=sim_case(), examples=300 if q else 20000),
        Sub("sampling-result", run_samp, strategy=samp_case(), examples=300 if q else 20000),
    ]
