"""C19 - any constructible circuit can be displayed, without side effects."""
import xml.etree.ElementTree as ET

import numpy as np
from hypothesis import strategies as st

from vlib import gen
from vlib.build import build_real, snapshot, snapshot_diff
from vlib.harness import Sub, Violation, call, expect_raises, unexpected

PROPERTY = "C19"
RULE = ("Circuits from the full program generator (all component kinds, empty and partial barriers, plain / heralded "
        "/ nested groups with and without names, heralds anywhere, lossy shorthands, beam splitters with descending "
        "and non-adjacent modes in both conventions, Parameters in any numeric slot with and without labels incl. "
        "unicode and long labels, phases at multiples of pi/4 and negative) and qubit-library circuits, combined with "
        "generated display options (svg | mpl, display_loss, show_parameter_values, mode_labels None / right length "
        "with arbitrary objects / wrong length, unknown display type). Oracle: returns a drawsvg.Drawing whose "
        "as_svg() parses as XML, or a (Figure, Axes) pair, without raising; observable circuit snapshot unchanged; "
        "wrong label length or unknown type raise DisplayError and nothing else. Non-trivial = a circuit with an "
        "ancilla mode, a heralded group or a labelled parameter; distinct = case JSON."
        " Group names and unitary labels of length 0, 1, 2 and long; mode labels as list or tuple, compared after drawing and used for a second drawing.")
ASSUMPTIONS = ["the right label count is the number of user-visible modes (all modes except ancillas of heralded "
               "sub-circuits), as both back-ends document", "figures are closed after every case; nothing is rasterised"]

LABELS = st.sampled_from([None, None, "a", "θ", "phi_1", "a very long parameter label indeed", "", "λ²"])


@st.composite
def with_invisible_group(draw):
    """A circuit that contains a sub-circuit all of whose modes are heralded (a group without any visible mode)."""
    n = draw(st.integers(1, 4))
    ops = draw(st.lists(gen.primitive(n, True), max_size=3))
    child = draw(gen.fully_heralded_program(max_n=2))
    ops.append(["add", child, draw(st.integers(0, n - 1)), True, draw(st.sampled_from([None, "anc"]))])
    ops += draw(st.lists(gen.primitive(n, True), max_size=2))
    return {"n": n, "ops": ops}


@st.composite
def display_case(draw, backend=None):
    kind = draw(st.integers(0, 5))
    if kind == 0:
        progs = gen.program(min_n=1, max_n=6, depth=3, max_ops=8, max_herald_photons=2)
    elif kind == 1:
        progs = gen.addition_tree(max_n=5, max_adds=3)
    elif kind == 2:
        progs = gen.flat_program(min_n=1, max_n=6, max_ops=10)
    elif kind == 3:
        progs = gen.swap_heavy_program()
    elif kind == 4:
        progs = gen.gate_program(n_qubits=draw(st.integers(1, 3)), max_gates=4, max_heralded=2, three=True)
    else:
        progs = with_invisible_group()
    pp = draw(gen.parametrized(progs, max_params=3))
    nlab = len(pp["values"])
    ml = draw(st.sampled_from(["none", "none", "right", "right-objects", "short", "long"]))
    return {"prog": pp["prog"], "values": pp["values"], "plabels": [draw(LABELS) for _ in range(nlab)],
            "backend": backend or draw(st.sampled_from(["svg", "svg", "mpl"])),
            "display_loss": draw(st.booleans()), "show_values": draw(st.booleans()), "mode_labels": ml,
            "bad_type": draw(st.sampled_from(["-", "-", "-", "-", "png", "SVG", "", None, 0, ["svg"]])),
            "phase_type": draw(st.sampled_from(["py", "py", "float64", "float32", "int64"]))}


def run_display(case):
    import lightworks as lw
    import matplotlib.pyplot as plt
    from lightworks.sdk.utils import DisplayError
    params = [lw.Parameter(v, label=l) for v, l in zip(case["values"], case["plabels"])]
    pt = case.get("phase_type", "py")
    phase_cast = None
    if pt == "float64":
        phase_cast = np.float64
    elif pt == "float32":
        phase_cast = np.float32
    elif pt == "int64":
        phase_cast = lambda v: np.int64(v) if isinstance(v, int) else np.float64(v)  # noqa: E731
    c = call("build", build_real, case["prog"], params, None, phase_cast)
    snap = snapshot(c)
    n_user = c.n_modes - len(c._internal_modes)
    ml = case["mode_labels"]
    labels = None
    expect_error = False
    if ml == "right":
        labels = [f"m{i}" for i in range(n_user)]
    elif ml == "right-objects":
        labels = [i * 1.5 if i % 2 else ("x", i) for i in range(n_user)]
    elif ml == "short":
        labels = [str(i) for i in range(max(0, n_user - 1))]
        expect_error = True
    elif ml == "long":
        labels = [str(i) for i in range(n_user + 2)]
        expect_error = True
    if labels is not None and len(case["prog"]["ops"]) % 3 == 0:
        labels = tuple(labels)                          # any sequence of the right length is a set of labels
    labels_given = None if labels is None else list(labels)
    kw = {"display_loss": case["display_loss"], "mode_labels": labels,
          "show_parameter_values": case["show_values"]}
    info = []
    try:
        if case["bad_type"] != "-":
            expect_raises("unknown-display-type", (DisplayError,), lw.Display, c, display_type=case["bad_type"], **kw)
            info.append("unknown-type-rejected")
        if expect_error:
            expect_raises(f"wrong-label-count[{case['backend']}]", (DisplayError,), lw.Display, c,
                          display_type=case["backend"], **kw)
            info.append("wrong-label-count-rejected")
        else:
            try:
                out = lw.Display(c, display_type=case["backend"], **kw)
            except Exception as e:  # noqa: BLE001
                v = unexpected(e, f"Display({case['backend']}, loss={case['display_loss']}, "
                                  f"values={case['show_values']}, labels={ml})")
                raise v from e
            if case["backend"] == "svg":
                import drawsvg
                if not isinstance(out, drawsvg.Drawing):
                    raise Violation(f"svg display returned {type(out).__name__}", key="return-type")
                try:
                    ET.fromstring(out.as_svg())
                except ET.ParseError as e:
                    raise Violation(f"svg output is not well-formed XML: {e}", key="svg-not-xml") from e
            else:
                import matplotlib.axes
                import matplotlib.figure
                if not (isinstance(out, tuple) and len(out) == 2 and isinstance(out[0], matplotlib.figure.Figure)
                        and isinstance(out[1], matplotlib.axes.Axes)):
                    raise Violation("mpl display did not return (Figure, Axes)", key="return-type")
        if labels is not None and list(labels) != labels_given:
            raise Violation(f"displaying changed the caller's mode_labels from {labels_given} to {list(labels)}",
                            key="display-mutates-labels")
        if labels is not None and not expect_error:
            # the same labels serve for the next drawing of the same circuit
            try:
                lw.Display(c, display_type=case["backend"], **kw)
            except Exception as e:  # noqa: BLE001
                raise unexpected(e, f"second Display({case['backend']}) with the same mode_labels object") from e
        s2 = snapshot(c)
        if s2 != snap:
            raise Violation(f"displaying changed the circuit ({snapshot_diff(snap, s2)})", key="display-mutates-circuit")
        for p, v in zip(params, case["values"]):
            if p.get() != v:
                raise Violation("displaying changed a parameter value", key="display-mutates-circuit")
    finally:
        plt.close("all")
    s = gen.program_stats(case["prog"])
    if c._internal_modes:
        info.append("ancilla-modes")
    if s["heralded_adds"]:
        info.append("heralded-group")
    if any(l for l in case["plabels"]):
        info.append("parameter-label")
    if c.heralds["input"] and any(m not in c._internal_modes for m in c.heralds["input"]):
        info.append("external-herald")
    if any(op[0] == "barrier" and op[1] == [] for op in case["prog"]["ops"]):
        info.append("empty-barrier")
    info.append(case["backend"])
    nt = bool(c._internal_modes) or s["heralded_adds"] > 0 or any(l for l in case["plabels"])
    return {"nontrivial": bool(nt), "labels": info}


def subs(tier):
    q = tier == "quick"
    return [
        Sub("svg", run_display, strategy=display_case("svg"), examples=180 if q else 6000),
        Sub("mpl", run_display, strategy=display_case("mpl"), examples=60 if q else 1500),
    ]
