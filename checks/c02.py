"""C02 - adding a sub-circuit wires it in order; heralded modes become private ancillas."""
import itertools
import random

import numpy as np
from hypothesis import strategies as st

from vlib import gen
from vlib.build import apply_real, build_model, build_real
from vlib.harness import Sub, Violation, call
from vlib.refmodel import fock, real_heralded_amp

PROPERTY = "C02"
RULE = ("Trees of circuits built by construction with add (grouped or not, nesting depth <= 3), "
        "+, herald (0-2 photons, input != output herald modes, any declaration order) and "
        "primitive components incl. lossy shorthands; every visible 1-2 photon Fock input "
        "(a generated subset when > 12) against every visible output: heralded amplitude from "
        "the real U_full/heralds vs the wire model that implements the C02 wording. Plus an "
        "exhaustive enumeration of two successive heralded additions (all placements, herald "
        "in/out modes, declaration orders). Non-trivial = an addition made while the parent "
        "already owns an ancilla, or a herald with input != output mode, or nesting depth >= 2; "
        "distinct = distinct program JSON.")
ASSUMPTIONS = [
    "only visible behaviour is compared (the index at which an ancilla is stored is free)",
    "amplitude tolerance 1e-6 (sin(theta) of a beam splitter with reflectivity within 1e-16 of 1 is only "
    "accurate to ~1.5e-8); random unitary blocks make accidental coincidences measure-zero",
    "no photon in any loss mode at the output (lossy components present but heralded amplitudes "
    "are the lossless branch)",
]
TOL = 1e-6          # when a beam splitter sits within 1e-6 of full reflection (ill-conditioned arccos, see C01)
TOL_TIGHT = 1e-9    # everywhere else


def compare(c, w, iseed, max_inputs=12, photons=(1, 2), tol=None):
    tol = TOL if tol is None else tol
    nv = w.n_visible
    if c.input_modes != nv:
        raise Violation(f"input_modes={c.input_modes}, wiring model has {nv} visible modes",
                        key="input-modes")
    if c.n_modes != len(w.user) + len(w.anc):
        raise Violation(f"n_modes={c.n_modes}, expected {len(w.user)} + {len(w.anc)} ancillas",
                        key="n-modes")
    h = c.heralds
    for m in c._internal_modes:
        if m not in h["input"] or m not in h["output"] or h["input"][m] != h["output"][m]:
            raise Violation(f"ancilla mode {m} does not carry equal heralds at input and output: {h}",
                            key="ancilla-herald-mismatch")
    exp_multiset = sorted([n for _, n in w.anc] + [p[2] for p in w.pairs])
    if sorted(h["input"].values()) != exp_multiset or sorted(h["output"].values()) != exp_multiset:
        raise Violation(f"herald photon numbers {h} differ from expected multiset {exp_multiset}",
                        key="herald-multiset")
    n_out = len(w.vis_out())
    rng = random.Random(iseed)
    worst = 0.0
    n_cmp = 0
    for nph in photons:
        ins = list(fock(nv, nph))
        if len(ins) > max_inputs:
            ins = rng.sample(ins, max_inputs)
        outs = list(fock(n_out, nph))
        for vin in ins:
            for vout in outs:
                a = real_heralded_amp(c, vin, vout)
                b = w.heralded_amp(vin, vout)
                n_cmp += 1
                d = abs(a - b)
                if not d <= tol:
                    raise Violation(
                        f"heralded amplitude {list(vin)}->{list(vout)}: real {a:.6g}, "
                        f"composed wiring {b:.6g}", key="amplitude-mismatch")
                worst = max(worst, d)
    return n_cmp


def run_tree(case):
    prog = case["prog"]
    import lightworks as lw
    c = lw.Circuit(prog["n"])
    labels = set()
    add_with_anc = False
    child_cache = {}
    for op in prog["ops"]:
        if op[0] == "add":
            im = list(c._internal_modes)
            if im:
                add_with_anc = True
                lo = c._map_mode(op[2])
                width = op[1]["n"]
                if any(lo - 1 <= i <= lo + width + len(im) for i in im):
                    labels.add("ancilla-in-or-next-to-span")
                if not op[3] and not gen.has_any_herald(op[1]):
                    labels.add("ungrouped-add-with-ancilla")
        if op[0] in ("bs", "ps") and c._internal_modes and op[-1 if op[0] == "ps" else 5] > 0:
            labels.add("lossy-shorthand-after-ancilla")
        c = call(f"apply {op[0]}", apply_real, c, op, None, np.int64 if case.get("np_modes") else None, None,
                 child_cache)
    w = build_model(prog)
    if case.get("np_modes"):
        labels.add("numpy-int64-modes")
    compare(c, w, case["iseed"], tol=TOL if gen.near_full_reflection(prog) else TOL_TIGHT)
    s = gen.program_stats(prog)
    if s["inout"]:
        labels.add("herald-in!=out")
    if s["depth"] >= 2:
        labels.add("depth>=2")
    if s["plus"]:
        labels.add("plus")
    if s["herald_photons"]:
        labels.add("herald-photons")
    if s["heralded_adds"]:
        labels.add("heralded-add")
    nt = add_with_anc or (s["inout"] and s["heralded_adds"]) or s["depth"] >= 2
    return {"nontrivial": bool(nt), "labels": sorted(labels)}


@st.composite
def plus_case(draw):
    """left + right where the left circuit already owns private ancillas (and perhaps heralds of its own)."""
    left = draw(gen.addition_tree(max_n=4, max_adds=2, lossy=False))
    n = left["n"]
    anc = gen.dims(left)[0] - n
    size = draw(st.sampled_from(["visible", "visible", "full"]))
    k = n if size == "visible" else n + anc
    right = draw(gen.flat_program(min_n=k, max_n=k, max_ops=3, lossy=False)) if k >= 2 else \
        {"n": k, "ops": [["ps", 0, 0.7, 0]]}
    return {"left": left, "right": right, "size": size, "iseed": draw(st.integers(0, 10 ** 6))}


def run_plus(case):
    """`left + right` either refuses (it is documented for circuits of equal size without such structure) or is the
    composition of the two under the C02 wiring, i.e. right added at user mode 0 of left."""
    from vlib.build import build_real
    left = call("build left", build_real, case["left"])
    right = call("build right", build_real, case["right"])
    has_anc = bool(left._internal_modes) or bool(left.heralds["input"])
    try:
        total = left + right
    except Exception as e:  # noqa: BLE001
        from vlib.harness import from_lightworks
        import lightworks as lw
        if isinstance(e, (lw.sdk.utils.LightworksError, NotImplementedError, ValueError, TypeError)):
            return {"nontrivial": has_anc, "labels": ["plus-refused:" + type(e).__name__]}
        if from_lightworks(e):
            raise Violation(f"left + right failed with {type(e).__name__}: {e}", key="plus-crashed") from e
        raise
    prog = {"n": case["left"]["n"], "ops": list(case["left"]["ops"]) + [["add", case["right"], 0, False, None]]}
    if case["size"] != "visible" and has_anc and gen.dims(case["left"])[0] != case["left"]["n"]:
        raise Violation("left + right was accepted although right has as many modes as left has *including* its "
                        "private ancillas: its components cannot have been placed on user-visible modes only",
                        key="plus-on-ancilla-modes")
    w = build_model(prog)
    compare(total, w, case["iseed"], tol=TOL if gen.near_full_reflection(prog) else TOL_TIGHT)
    return {"nontrivial": has_anc, "labels": ["plus-accepted"]}


# ---------------------------------------------------------------- exhaustive
def child_prog(k, heralds, seed):
    """k-mode haar unitary with heralds [(n, i, o), ...] declared in given order."""
    ops = [["unitary", 0, "haar", k, seed]]
    for n, i, o in heralds:
        ops.append(["herald", n, i, o])
    return {"n": k, "ops": ops}


def two_addition_cases(full):
    """parent P modes; first child: k1 modes with one herald (i1->o1);
    second child: k2 modes with 1-2 heralds in both declaration orders."""
    sizes = [(2, 2, 3), (3, 2, 3), (2, 3, 3), (3, 3, 4)] if full else [(2, 2, 3), (3, 2, 3)]
    for P, k1, k2 in sizes:
        for i1 in range(k1):
            for o1 in range(k1):
                v1 = k1 - 1
                for m1 in range(P - v1 + 1):
                    first = ["add", child_prog(k1, [(0, i1, o1)], 11), m1, True, None]
                    herald_sets = []
                    for i in range(k2):
                        for o in range(k2):
                            herald_sets.append([(0, i, o)])
                    if k2 >= 3:
                        for ia, ib in itertools.permutations(range(k2), 2):
                            for oa, ob in itertools.permutations(range(k2), 2):
                                herald_sets.append([(0, ia, oa), (1, ib, ob)])
                    for hs in herald_sets:
                        v2 = k2 - len(hs)
                        if v2 < 1 or v2 > P:
                            continue
                        for m2 in range(P - v2 + 1):
                            second = ["add", child_prog(k2, hs, 23), m2, True, None]
                            yield {"prog": {"n": P, "ops": [first, second]}, "iseed": 0}


def run_two(case):
    prog = case["prog"]
    c = call("build", build_real, prog)
    w = build_model(prog)
    compare(c, w, 0, photons=(1,) if prog["n"] > 2 else (1, 2),
            tol=TOL if gen.near_full_reflection(prog) else TOL_TIGHT)
    hs = prog["ops"][1][1]["ops"][1:]
    labels = []
    if any(h[2] != h[3] for h in hs):
        labels.append("second-child-in!=out")
    if len(hs) == 2 and hs[0][2] > hs[1][2]:
        labels.append("heralds-declared-descending")
    return {"nontrivial": True, "labels": labels}


def subs(tier):
    q = tier == "quick"
    case = st.fixed_dictionaries({
        "prog": gen.program(min_n=2, max_n=6, depth=3, max_ops=7, max_herald_photons=2),
        "iseed": st.integers(0, 2 ** 20),
    })
    case_small = st.fixed_dictionaries({
        "prog": gen.program(min_n=2, max_n=4, depth=2, max_ops=5, lossy=False, plus=False),
        "iseed": st.integers(0, 2 ** 20),
    })
    case_adds = st.fixed_dictionaries({
        "prog": gen.addition_tree(max_herald_photons=1),
        "iseed": st.integers(0, 2 ** 20),
        "np_modes": st.sampled_from([False, False, False, True]),     # modes as produced by numpy.arange
    })
    case_nested = st.fixed_dictionaries({
        "prog": gen.nested_group_tree(),
        "iseed": st.integers(0, 2 ** 20),
    })
    return [
        Sub("nested-groups", run_tree, strategy=case_nested, examples=60 if q else 2000),
        Sub("addition-trees", run_tree, strategy=case_adds, examples=150 if q else 4000),
        Sub("trees", run_tree, strategy=case, examples=100 if q else 2500),
        Sub("trees-small", run_tree, strategy=case_small, examples=100 if q else 2500),
        Sub("plus-with-ancillas", run_plus, strategy=plus_case(), examples=40 if q else 1500),
        Sub("two-additions-exhaustive", run_two,
            cases=lambda: two_addition_cases(full=not q), exhaustive=True),
    ]
