"""C07 - sampling draws from the exact detected, heralded, post-selected distribution."""
import math
import random as pyrandom

import numpy as np
from hypothesis import strategies as st

from vlib import gen, postsel
from vlib.build import build_real
from vlib.harness import Sub, Violation, call
from vlib.refmodel import detector_response, fock, marginal_distribution

PROPERTY = "C07"
RULE = ("Generated small circuits (2-5 modes, loss, heralds with photons via nested additions / external heralds "
        "with in != out modes), inputs 0-3 photons, detector (efficiency in {1,[0.3,1)}, p_dark in {0,(0,0.3]}, "
        "photon counting on/off), post-selection None/rules/predicate, min_detection 0-3, N in {0,1,2000..20000}, "
        "generated seeds; methods Sampler.sample_N_inputs / sample_N_outputs / sample and QuickSampler.sample / "
        "sample_N_outputs. Oracle: exact reference = own permanent -> loss traced out -> own detector model -> "
        "herald check and removal -> post-selection and min_detection; every returned state is checked "
        "deterministically (length, predicates, support), counts are checked by Pearson chi-square (cells with "
        "expectation < 10 pooled; for N inputs the rejected mass is one more cell) with violation only at "
        "p < 1e-9. Non-trivial = an imperfect detector stage or a herald/post-selection/min_detection that "
        "rejects >= 5% of the mass, with N >= 2000 (or more than a million samples over >= 50 outcomes); distinct = case JSON. Seeded calls are repeated in a second interpreter with another hash salt (vlib/peer.py).")
ASSUMPTIONS = [
    "statistical clause decided at p-value < 1e-9 per comparison (chi-square approximation, pooled cells >= 10 expected)",
    "Sampler.sample() is documented as returning single outputs from the system and takes no heralding or "
    "post-selection arguments: for it only the detector-processed full-mode distribution is asserted",
    "sample_N_outputs only with efficiency 1 and p_dark 0 (documented domain)",
    "threshold detectors only combined with heralds carrying <= 1 photon (otherwise SamplerError is the documented answer and is asserted)",
]
P_VIOLATION = 1e-9


def chi2_sf(x, k):
    from scipy.stats import chi2
    return float(chi2.sf(x, k))


def chi_square(counts: dict, probs: dict, n_total: int, what: str):
    """counts and probs over the same category labels; probs sum to ~1."""
    cells = []
    pooled_e, pooled_o = 0.0, 0
    psum = sum(probs.values())
    for k, p in probs.items():
        e = n_total * p / psum
        o = counts.get(k, 0)
        if e < 10:
            pooled_e += e
            pooled_o += o
        else:
            cells.append((e, o))
    if pooled_e > 0:
        if pooled_e >= 10 or not cells:
            cells.append((pooled_e, pooled_o))
        else:
            e, o = cells.pop()
            cells.append((e + pooled_e, o + pooled_o))
    if len(cells) < 2:
        return None
    x = sum((o - e) ** 2 / e for e, o in cells)
    pval = chi2_sf(x, len(cells) - 1)
    if pval < P_VIOLATION:
        raise Violation(f"{what}: empirical frequencies do not follow the exact distribution "
                        f"(chi2={x:.1f}, dof={len(cells) - 1}, p={pval:.3g}, N={n_total})",
                        key="frequencies:" + what.split(" ")[0])
    return pval


@st.composite
def detector_cfg(draw, allow_imperfect=True):
    if not allow_imperfect:
        return {"eff": 1, "dark": 0, "pc": draw(st.booleans())}
    # both ends of both ranges are legal values: efficiency 0 (every click is a dark count), p_dark 1 (every mode
    # clicks once more)
    eff = draw(st.one_of(st.just(1), st.just(1.0), st.floats(0.3, 1.0, exclude_max=True),
                         st.sampled_from([0.5, 0.9, 0, 0.0, 0.05])))
    dark = draw(st.one_of(st.just(0), st.just(0), st.floats(0.0, 0.3, exclude_min=True),
                          st.sampled_from([0.05, 0.2, 1, 1.0])))
    return {"eff": eff, "dark": dark, "pc": draw(st.booleans())}


@st.composite
def sampling_case(draw, method=None):
    kind = draw(st.integers(0, 4))
    if kind == 4:
        # dense interferometer with a herald that expects exactly one photon: bunching onto the herald mode
        n = draw(st.integers(2, 4))
        prog = {"n": n, "ops": [["unitary", 0, "haar", n, draw(st.integers(0, 10 ** 6))],
                                ["herald", 1, draw(st.integers(0, n - 1)), draw(st.integers(0, n - 1))]]}
    elif kind == 0:
        prog = draw(gen.addition_tree(max_n=3, max_adds=2))
    elif kind == 1:
        prog = draw(gen.program(min_n=2, max_n=4, depth=1, max_ops=5, max_herald_photons=1))
    else:
        prog = draw(gen.flat_program(min_n=2, max_n=4, max_ops=6))
        if draw(st.booleans()) and prog["n"] >= 3:
            prog["ops"].append(["herald", draw(st.integers(0, 1)), draw(st.integers(0, prog["n"] - 1)),
                                draw(st.integers(0, prog["n"] - 1))])
    prog, _ = gen.limit_loss(prog, 2)
    modes, loss, hp = gen.dims(prog)
    nv = prog["n"] - gen.count_heralds(prog)
    prog = gen.cap_herald_photons(prog, cap=1500)
    nph = gen.fit_photons(prog, draw(st.sampled_from([0, 1, 2, 2, 3])), cap=1500)
    if modes > 6:
        nph = min(nph, 1)
    vin = draw(gen.fock_state(nv, nph))
    m = method or draw(st.sampled_from(["N_inputs", "N_inputs", "N_outputs", "sample", "qs_sample",
                                        "qs_N_outputs"]))
    det = draw(detector_cfg(allow_imperfect=m in ("N_inputs", "sample")))
    ps = draw(postsel.post_selection(nv, nph + 1))
    n = draw(st.sampled_from([5000, 2000, 5000, 20000, 0, 1]))
    if m in ("sample", "qs_sample"):
        n = draw(st.sampled_from([2000, 4000, 1]))
    det["mutate"] = draw(st.booleans())
    return {"prog": prog, "input": vin, "method": m, "det": det, "ps": ps,
            "min_det": draw(st.sampled_from([0, 0, 1, 2, 3])), "N": n,
            "seed": draw(st.integers(0, 2 ** 31 - 1)),
            "seed_type": draw(st.sampled_from(["int", "int", "np.int64", "float"]))}


def full_state(vis, heralds, n_modes):
    it = iter(vis)
    return tuple(heralds[m] if m in heralds else next(it) for m in range(n_modes))


def run_sampling(case):
    import lightworks as lw
    from lightworks import emulator
    from lightworks.emulator import SamplerError
    c = call("build", build_real, case["prog"])
    n = c.n_modes
    nv = c.input_modes
    hin, hout = c.heralds["input"], c.heralds["output"]
    U = c.U_full
    vin = list(case["input"])
    det = case["det"]
    ps = case["ps"]
    method = case["method"]
    N, seed, min_det = case["N"], case["seed"], case["min_det"]
    if case.get("seed_type") == "np.int64":
        seed = np.int64(seed)           # integer-valued seeds of other numeric types are accepted as seeds
    elif case.get("seed_type") == "float":
        seed = float(seed)
    fin = list(full_state(vin, hin, n)) + [0] * (U.shape[0] - n)
    full_ref = marginal_distribution(U, n, fin)          # over all circuit modes
    labels = {method}
    in_state = lw.State(list(vin))
    hmodes = sorted(hout)
    keep = [m for m in range(n) if m not in hout]

    def accepted_from(detected: dict, use_min_det=True, use_ps=True):
        acc = {}
        for s, p in detected.items():
            if any(s[m] != hout[m] for m in hmodes):
                continue
            v = tuple(s[m] for m in keep)
            if use_min_det and sum(v) < min_det:
                continue
            if use_ps and not postsel.accepts(ps, list(v)):
                continue
            acc[v] = acc.get(v, 0.0) + p
        return acc

    def check_states(res, acc, what):
        for s in res:
            v = tuple(s)
            if len(v) != nv:
                raise Violation(f"{what}: returned state {list(v)} has {len(v)} modes, expected {nv} "
                                f"(heralded modes removed)", key="sample-length")
            if not postsel.accepts(ps, list(v)):
                raise Violation(f"{what}: returned state {list(v)} violates the post-selection", key="sample-ps")
            if method.startswith("N_") and sum(v) < min_det:
                raise Violation(f"{what}: returned state {list(v)} has fewer than min_detection={min_det} photons",
                                key="sample-min-detection")
            if acc.get(v, 0.0) <= 1e-13:
                # Documented truncation: full-mode states below sampler_probability_threshold (1e-9 each) are dropped and
                # their mass is booked on the vacuum pattern of a lossy circuit. Where the accepted mass is so small that
                # this booked mass (at most 1e-9 per full state) is a visible fraction of it, the vacuum pattern may be
                # drawn although its exact probability is zero.
                booked = len(full_ref) * 1e-9
                p_acc_ = sum(acc.values())
                if (U.shape[0] > n and not any(v) and all(hout[m] == 0 for m in hmodes) and p_acc_ > 0
                        and booked / p_acc_ > 1e-6):
                    labels.add("vacuum-drawn-from-booked-truncation-mass")
                    continue
                raise Violation(f"{what}: returned state {list(v)} is outside the support of the exact detected, "
                                f"heralded, post-selected distribution", key="sample-support")
        if res.input != in_state:
            raise Violation(f"{what}: result.input is {res.input}, expected {in_state}", key="result-input")

    # The PostSelection object may have a history: it is used once while it holds all but its last rule, then
    # completed, then used for the call that is checked (a user who tightens the selection between two runs)
    staged = None
    if ps is not None and len(ps.get("rules", ())) >= 2 and int(seed) % 2 == 1:
        staged = []
        real_ps = postsel.to_real(ps, staged)
        for add_rule in staged[:-1]:
            add_rule()
        labels.add("post-selection-object-used-before-completed")
    else:
        real_ps = postsel.to_real(ps)
    threshold_conflict = (not det["pc"]) and max(hout.values(), default=0) > 1

    if method in ("N_inputs", "N_outputs", "sample"):
        if det.get("mutate"):
            # a detector configured through its properties after construction
            d = emulator.Detector()
            smp = emulator.Sampler(c, in_state, detector=d)
            smp.detector.efficiency = det["eff"]
            smp.detector.p_dark = det["dark"]
            smp.detector.photon_counting = det["pc"]
            labels.add("detector-set-after-construction")
        else:
            d = emulator.Detector(efficiency=det["eff"], p_dark=det["dark"], photon_counting=det["pc"])
            smp = emulator.Sampler(c, in_state, detector=d)
        detected = detector_response(full_ref, det["eff"], det["dark"], det["pc"])
        if det["eff"] < 1:
            labels.add("efficiency<1")
        if det["dark"] > 0:
            labels.add("dark-counts")
        if not det["pc"]:
            labels.add("threshold")

    if staged is not None:
        if method in ("N_inputs", "N_outputs") and not threshold_conflict:
            try:
                getattr(smp, "sample_" + method)(200, post_select=real_ps, min_detection=0, seed=seed)
            except Exception:  # noqa: BLE001, S110  (the warm-up call is not the one being checked)
                pass
        if method in ("N_inputs", "N_outputs", "sample"):
            staged[-1]()

    if method == "N_inputs":
        fn = smp.sample_N_inputs
        if threshold_conflict:
            try:
                fn(N, post_select=real_ps, min_detection=min_det, seed=seed)
            except SamplerError:
                return {"nontrivial": False, "labels": ["threshold-herald>1-refused"]}
            raise Violation("threshold detectors with a herald of > 1 photon were accepted", key="threshold-herald")
        res = call("sample_N_inputs", fn, N, post_select=real_ps, min_detection=min_det, seed=seed)
        acc = accepted_from(detected)
        check_states(res, acc, "sample_N_inputs")
        total = sum(res.values())
        if total > N:
            raise Violation(f"sample_N_inputs returned {total} samples for N={N}", key="n-inputs-count")
        res2 = res if case.get("once") else call("sample_N_inputs", fn, N, post_select=postsel.to_real(ps),
                                                 min_detection=min_det, seed=seed)
        if dict(res) != dict(res2):
            raise Violation("sample_N_inputs: same seed gave different results", key="seed-not-reproducible")
        p_acc = sum(acc.values())
        pval = None
        if N >= 2000:
            counts = {tuple(k): v for k, v in res.items()}
            probs = dict(acc)
            counts["__rejected__"] = N - total
            probs["__rejected__"] = max(0.0, 1 - p_acc)
            pval = chi_square(counts, probs, N, "sample_N_inputs frequencies / accepted fraction")
        rejecting = p_acc < 0.95
    elif method == "N_outputs":
        fn = smp.sample_N_outputs
        if threshold_conflict:
            try:
                fn(N, post_select=real_ps, min_detection=min_det, seed=seed)
            except SamplerError:
                return {"nontrivial": False, "labels": ["threshold-herald>1-refused"]}
            raise Violation("threshold detectors with a herald of > 1 photon were accepted", key="threshold-herald")
        acc = accepted_from(detected)
        p_acc = sum(acc.values())
        if p_acc < 1e-7:
            try:
                fn(N, post_select=real_ps, min_detection=min_det, seed=seed)
            except (SamplerError, ValueError):
                return {"nontrivial": False, "labels": ["nothing-accepted"]}
            # conditioning on an event of (numerically) zero probability: neither outcome is asserted
            return {"nontrivial": False, "labels": ["nothing-accepted"]}
        res = call("sample_N_outputs", fn, N, post_select=real_ps, min_detection=min_det, seed=seed)
        check_states(res, acc, "sample_N_outputs")
        total = sum(res.values())
        if total != N:
            raise Violation(f"sample_N_outputs returned {total} samples, not N={N}", key="n-outputs-count")
        res2 = res if case.get("once") else call("sample_N_outputs", fn, N, post_select=postsel.to_real(ps),
                                                 min_detection=min_det, seed=seed)
        if dict(res) != dict(res2):
            raise Violation("sample_N_outputs: same seed gave different results", key="seed-not-reproducible")
        pval = None
        if N >= 2000 and p_acc >= 1e-5:
            # below that the documented 1e-9 truncation of single patterns is no longer negligible relative
            # to the accepted mass; the deterministic clauses above are still asserted
            pval = chi_square({tuple(k): v for k, v in res.items()}, acc, N, "sample_N_outputs frequencies")
        rejecting = p_acc < 0.95
    elif method == "sample":
        # full-mode detected distribution, no heralding / post-selection
        pyrandom.seed(int(seed))
        counts = {}
        for _ in range(N):
            s = call("Sampler.sample", smp.sample)
            k = tuple(s)
            if len(k) != n:
                raise Violation(f"Sampler.sample returned {list(k)} ({len(k)} modes), circuit has {n}",
                                key="sample-length")
            if detected.get(k, 0.0) <= 1e-13:
                raise Violation(f"Sampler.sample returned {list(k)}, outside the support of the detected "
                                f"distribution", key="sample-support")
            counts[k] = counts.get(k, 0) + 1
        pval = chi_square(counts, detected, N, "Sampler.sample frequencies") if N >= 2000 else None
        rejecting = False
    else:
        # QuickSampler: perfect detection, photon number preserved, optional threshold
        pc = det["pc"]
        if not pc and max(hout.values(), default=0) > 1:
            return {"nontrivial": False, "labels": ["qs-threshold-herald>1-skipped"]}
        nph = sum(vin)
        cond = {}
        for o in fock(nv, nph):
            if not pc and max(o, default=0) > 1:
                continue
            if not postsel.accepts(ps, list(o)):
                continue
            p = full_ref.get(full_state(o, hout, n), 0.0)
            if p > 0:
                cond[o] = p
        mass = sum(cond.values())
        if mass < 1e-6:
            return {"nontrivial": False, "labels": ["qs-mass<1e-6"]}
        qs = emulator.QuickSampler(c, in_state, photon_counting=pc, post_select=real_ps)
        if staged is not None:
            try:
                qs.sample_N_outputs(50, seed=seed)
            except Exception:  # noqa: BLE001, S110
                pass
            staged[-1]()
        labels.add("threshold" if not pc else "photon-counting")
        if method == "qs_N_outputs":
            res = call("QuickSampler.sample_N_outputs", qs.sample_N_outputs, N, seed=seed)
            check_states(res, cond, "QuickSampler.sample_N_outputs")
            if sum(res.values()) != N:
                raise Violation(f"QuickSampler.sample_N_outputs returned {sum(res.values())} samples, not {N}",
                                key="n-outputs-count")
            qs2 = emulator.QuickSampler(c, in_state, photon_counting=pc, post_select=postsel.to_real(ps))
            res2 = call("QuickSampler.sample_N_outputs", qs2.sample_N_outputs, N, seed=seed)
            if dict(res) != dict(res2):
                raise Violation("QuickSampler.sample_N_outputs: same seed gave different results",
                                key="seed-not-reproducible")
            counts = {tuple(k): v for k, v in res.items()}
        else:
            pyrandom.seed(int(seed))
            counts = {}
            for _ in range(N):
                s = call("QuickSampler.sample", qs.sample)      # no prior distribution read
                k = tuple(s)
                if len(k) != nv or cond.get(k, 0.0) <= 1e-13 or not postsel.accepts(ps, list(k)):
                    raise Violation(f"QuickSampler.sample returned {list(k)}, not an accepted heralded output",
                                    key="sample-support")
                counts[k] = counts.get(k, 0) + 1
        pval = chi_square(counts, cond, N, f"QuickSampler.{method} frequencies") if N >= 2000 else None
        rejecting = mass < 0.95
    if pval is not None:
        labels.add("chi-square-evaluated")
    imperfect = det["eff"] < 1 or det["dark"] > 0 or not det["pc"]
    if rejecting:
        labels.add("rejects>=5%")
    if sum(hin.values()):
        labels.add("herald-photons")
    if N > 10 ** 6:
        labels.add("more-than-a-million-samples")
    return {"nontrivial": ((imperfect or rejecting) and N >= 2000) or (N > 10 ** 6 and pval is not None),
            "labels": sorted(labels)}


@st.composite
def big_n_case(draw, quick):
    """Millions of samples from a distribution with 100-200 outcomes of comparable weight: the chi-square statistic
    has that many degrees of freedom, so counts that are more (or less) dispersed than independent draws - not only
    shifted ones - show at the 1e-9 level."""
    m = draw(st.sampled_from([6, 7]))
    nph = draw(st.sampled_from([3, 4]))
    prog = {"n": m, "ops": [["unitary", 0, "haar", m, draw(st.integers(0, 10 ** 6))]]}
    occ = [1] * nph + [0] * (m - nph)
    n = draw(st.sampled_from([2_000_000, 3_000_000] if quick else [1_000_001, 1_500_000, 2_000_000, 3_000_000,
                                                                    4_000_000]))
    return {"prog": prog, "input": list(draw(st.permutations(occ))),
            "method": draw(st.sampled_from(["N_inputs", "N_outputs"])),
            "det": {"eff": 1, "dark": 0, "pc": True, "mutate": False}, "ps": None, "min_det": 0, "N": n,
            "seed": draw(st.integers(0, 2 ** 31 - 1)), "seed_type": "int", "once": True}


# ------------------------------------------------------------ reproducibility across interpreter runs
def seeded_eval(case):
    """The seeded sampling call of `case`, as canonical JSON. Evaluated here and in a second interpreter that salts
    hash() differently (vlib.peer): "a fixed seed reproduces the same result" is a statement about re-running a
    program, and every run is a new interpreter."""
    import lightworks as lw
    from lightworks import emulator
    c = build_real(case["prog"])
    det = case["det"]
    in_state = lw.State(list(case["input"]))
    real_ps = postsel.to_real(case["ps"])
    seed, N, method = case["seed"], case["N"], case["method"]
    if method in ("N_inputs", "N_outputs"):
        d = emulator.Detector(efficiency=det["eff"], p_dark=det["dark"], photon_counting=det["pc"])
        smp = emulator.Sampler(c, in_state, detector=d)
        res = getattr(smp, "sample_" + method)(N, post_select=real_ps, min_detection=case["min_det"], seed=seed)
    else:
        qs = emulator.QuickSampler(c, in_state, photon_counting=det["pc"], post_select=real_ps)
        res = qs.sample_N_outputs(N, seed=seed)
    return sorted([[int(x) for x in k], int(v)] for k, v in res.items())


@st.composite
def peer_case(draw):
    case = draw(sampling_case(method=draw(st.sampled_from(["N_inputs", "N_inputs", "N_outputs", "qs_N_outputs"]))))
    case["N"] = draw(st.sampled_from([50, 300]))
    case["seed_type"] = "int"
    if case["method"] == "N_inputs" and case["det"]["eff"] == 1 and case["det"]["dark"] == 0:
        case["det"]["eff"], case["det"]["dark"] = draw(st.sampled_from([[0.7, 0], [1, 0.1], [0.6, 0.2]]))
    return case


def run_peer(case):
    from vlib import peer
    from vlib.harness import from_lightworks
    try:
        here = ("ok", seeded_eval(case))
    except Exception as e:  # noqa: BLE001
        if not from_lightworks(e):
            raise
        here = ("raised", f"{type(e).__name__}: {e}")
    there = peer.ask("checks.c07", "seeded_eval", case)
    labels = [case["method"], "both-" + here[0]]
    if here[0] != there[0]:
        raise Violation(f"{case['method']}(N={case['N']}, seed={case['seed']}): this interpreter {here[0]} "
                        f"({str(here[1])[:120]}), a second interpreter {there[0]} ({str(there[1])[:120]})",
                        key="seed-not-reproducible-across-processes")
    if here[0] == "ok" and here[1] != there[1]:
        raise Violation(f"{case['method']}(N={case['N']}, seed={case['seed']}) gives {str(here[1])[:150]} in this "
                        f"interpreter and {str(there[1])[:150]} in a second interpreter (PYTHONHASHSEED "
                        f"{peer.PEER_HASHSEED}) - a fixed seed does not reproduce the result",
                        key="seed-not-reproducible-across-processes")
    det = case["det"]
    if det["eff"] < 1 or det["dark"] > 0:
        labels.append("imperfect-detector")
    return {"nontrivial": here[0] == "ok" and len(here[1]) >= 2, "labels": labels}


def subs(tier):
    q = tier == "quick"
    return [
        Sub("sample_N_inputs", run_sampling, strategy=sampling_case(method="N_inputs"),
            examples=35 if q else 1000),
        Sub("sample_N_outputs", run_sampling, strategy=sampling_case(method="N_outputs"),
            examples=25 if q else 600),
        Sub("Sampler.sample", run_sampling, strategy=sampling_case(method="sample"),
            examples=12 if q else 300),
        Sub("QuickSampler.sample", run_sampling, strategy=sampling_case(method="qs_sample"),
            examples=12 if q else 300),
        Sub("millions-of-samples", run_sampling, strategy=big_n_case(q), examples=1 if q else 12),
        Sub("seed-across-interpreters", run_peer, strategy=peer_case(), examples=5 if q else 400),
        Sub("QuickSampler.sample_N_outputs", run_sampling, strategy=sampling_case(method="qs_N_outputs"),
            examples=15 if q else 400),
    ]
