"""C03 - Simulator amplitudes are the bosonic Fock-space amplitudes of the circuit."""
import numpy as np
from hypothesis import strategies as st

from vlib import gen
from vlib.build import build_real
from vlib.harness import Sub, Violation, call, expect_raises
from vlib.refmodel import fock, real_heralded_amp

PROPERTY = "C03"
RULE = ("Circuits from the program generator (components, loss, nested heralded additions, external "
        "heralds with 0-2 photons on arbitrary in/out modes); 1-3 inputs of equal photon number 0-3(4) "
        "incl. bunched and vacuum; outputs None or an explicit generated list. Oracle: own Ryser "
        "permanent of the photon-indexed sub-matrix of the real U_full with herald photons inserted and "
        "vacuum on loss modes. Second generator: invalid inputs must be rejected. Non-trivial = >= 2 "
        "photons and (bunched input or output, or a herald carrying photons, or >= 1 loss element); "
        "distinct = distinct case JSON.")
ASSUMPTIONS = ["tolerance 1e-9 on amplitudes", "numpy indexing and own permanent trusted (self-tested)"]
TOL = 1e-9


@st.composite
def sim_case(draw, big=False):
    kind = draw(st.integers(0, 2))
    if kind == 0:
        prog = draw(gen.program(min_n=1, max_n=5, depth=2, max_ops=6, max_herald_photons=2))
    elif kind == 1:
        prog = draw(gen.addition_tree(max_n=4, max_adds=3))
    else:
        prog = draw(gen.flat_program(min_n=1, max_n=6, max_ops=8))
    nv = prog["n"] - gen.count_heralds(prog)
    nph = draw(st.integers(0, 4 if big else 3))
    inputs = draw(st.lists(gen.fock_state(nv, nph), min_size=1, max_size=3))
    single = len(inputs) == 1 and draw(st.booleans())
    if draw(st.booleans()):
        outputs = None
    else:
        outputs = draw(st.lists(gen.fock_state(nv, nph), min_size=1, max_size=5))
    return {"prog": prog, "inputs": inputs, "single": single, "outputs": outputs}


@st.composite
def bunched_case(draw, big=False):
    """Few modes, many photons: several modes sharing occupations >= 2."""
    prog = draw(gen.flat_program(min_n=2, max_n=4, max_ops=6))
    prog, _ = gen.limit_loss(prog, 2)
    if draw(st.booleans()) and prog["n"] >= 3:
        prog["ops"].append(["herald", draw(st.integers(0, 2)), draw(st.integers(0, prog["n"] - 1)),
                            draw(st.integers(0, prog["n"] - 1))])
    nv = prog["n"] - gen.count_heralds(prog)
    nph = draw(st.integers(3, 7 if big else 6))
    occ = st.lists(st.sampled_from([0, 2, 2, 3, 1]), min_size=nv, max_size=nv)
    inputs = [draw(occ)]
    nph = sum(inputs[0])
    outputs = draw(st.lists(gen.fock_state(nv, nph), min_size=1, max_size=6))
    same = list(inputs[0])
    outputs.append(list(draw(st.permutations(same))))
    return {"prog": prog, "inputs": inputs, "single": draw(st.booleans()), "outputs": outputs}


@st.composite
def fully_heralded_case(draw):
    prog = draw(gen.fully_heralded_program())
    prog, _ = gen.limit_loss(prog, 2)
    return {"prog": prog, "inputs": [[]], "single": draw(st.booleans()),
            "outputs": draw(st.sampled_from([None, [[]]]))}


@st.composite
def live_case(draw):
    """Simulator created first, circuit edited afterwards."""
    base = draw(sim_case())
    prog = base["prog"]
    cut = draw(st.integers(0, len(prog["ops"])))
    base["cut"] = cut
    return base


def run_live(case):
    """The Simulator must use the circuit as it is when simulate() is called."""
    import lightworks as lw
    from lightworks import emulator
    from vlib.build import apply_real
    prog = case["prog"]
    c = lw.Circuit(prog["n"])
    for op in prog["ops"][:case["cut"]]:
        c = call("apply", apply_real, c, op)
    sim = emulator.Simulator(c)
    later = prog["ops"][case["cut"]:]
    if any(op[0] == "plus" for op in later):
        later = [op for op in later if op[0] != "plus"]     # '+' creates a new object
    for op in later:
        c = call("apply", apply_real, c, op)
    nv = c.input_modes
    nph = sum(case["inputs"][0])
    ins = [lw.State((list(s) + [0] * nv)[:nv]) for s in case["inputs"]]
    tot = {sum(s) for s in ins}
    if len(tot) != 1:
        ins = ins[:1]
    res = call("simulate after edit", sim.simulate, ins)
    arr = np.asarray(res.array)
    for i, vin in enumerate(res.inputs):
        for j, vout in enumerate(res.outputs):
            ref = real_heralded_amp(c, list(vin), list(vout))
            if not abs(arr[i, j] - ref) <= TOL:
                raise Violation(f"Simulator created before the circuit was completed: amplitude "
                                f"{list(vin)}->{list(vout)} is {arr[i, j]:.6g}, current circuit gives {ref:.6g}",
                                key="stale-circuit")
    edited_heralds = any(op[0] == "herald" or (op[0] == "add" and gen.has_any_herald(op[1])) for op in later)
    return {"nontrivial": bool(later) and nph >= 1,
            "labels": ["heralds-added-after-construction"] if edited_heralds else []}


def run_two_mode(case):
    """Many photons in two modes: |amplitude|^2 against the exact polynomial expansion (C04's reference)."""
    import lightworks as lw
    from lightworks import emulator
    from checks.c04 import exact_two_mode
    c = call("build", build_real, case["prog"])
    n0, n1 = case["input"]
    while n0 + n1 > 16:                       # permanents beyond 16x16 are only slow, not different
        n0, n1 = (n0 - 1, n1) if n0 >= n1 else (n0, n1 - 1)
    n = n0 + n1
    ref = exact_two_mode(c.U, n0, n1)
    outs = None if n <= 10 else [lw.State([k, n - k]) for k in sorted({0, n // 3, n // 2, n})]
    res = call("simulate", emulator.Simulator(c).simulate, lw.State([n0, n1]), outs)
    arr = np.asarray(res.array)
    tot = 0.0
    for j, o in enumerate(res.outputs):
        p = abs(arr[0, j]) ** 2
        tot += p
        if not abs(p - ref.get(tuple(o), 0.0)) <= 1e-9 * (n + 1):
            raise Violation(f"|amplitude|^2 of |{n0},{n1}> -> {list(o)} is {p:.10g}, exact {ref.get(tuple(o), 0.0):.10g}",
                            key="amplitude-mismatch")
    if outs is None and not abs(tot - 1) <= 1e-8:
        raise Violation(f"lossless circuit: sum |a|^2 = {tot}", key="not-normalised")
    return {"nontrivial": n >= 8, "labels": ["photons>=13"] if n >= 13 else []}


def run_sim(case):
    import lightworks as lw
    from lightworks import emulator
    prog = case["prog"]
    c = call("build", build_real, prog)
    nv = c.input_modes
    variant = (len(prog["ops"]) + 3 * sum(case["inputs"][0]) + len(case["inputs"])) % 4     # a function of the case
    # states are built from lists or from tuples
    mk = (lambda s: lw.State(tuple(s))) if variant == 1 else (lambda s: lw.State(list(s)))
    inputs = [mk(s) for s in case["inputs"]]
    arg_in = inputs[0] if case["single"] else inputs
    outputs = None if case["outputs"] is None else [mk(s) for s in case["outputs"]]
    sim = emulator.Simulator(c)
    old_precision = lw.settings.unitary_precision
    try:
        if variant == 2:
            # a looser unitarity tolerance (as set to load measured / rounded matrices) does not change amplitudes
            lw.settings.unitary_precision = 1e-3
        res = call("simulate", sim.simulate, arg_in, outputs)
    finally:
        lw.settings.unitary_precision = old_precision
    arr = np.array(res.array, copy=True)
    if variant == 3 and case["outputs"] is None:
        # whatever the caller does to the lists / array of a result it was given, the next simulation is unaffected
        first_outs = [list(s) for s in res.outputs]
        res.outputs.clear()
        res.inputs.clear()
        try:
            res.array[...] = 0
        except (ValueError, TypeError):
            pass
        again_in = [mk(s) for s in case["inputs"]]       # (the first result's lists may be the caller's own objects)
        res = call("simulate (again)", emulator.Simulator(c).simulate,
                   again_in[0] if case["single"] else again_in, None)
        if [list(s) for s in res.outputs] != first_outs or not np.array_equal(np.asarray(res.array), arr):
            raise Violation("a second simulate() differs from the first after the caller emptied the first result's "
                            "lists / array in place", key="result-aliased")
    r_in = [list(s) for s in res.inputs]
    r_out = [list(s) for s in res.outputs]
    nph = sum(case["inputs"][0])
    if r_in != [list(s) for s in case["inputs"]]:
        raise Violation(f"result inputs {r_in} differ from given {case['inputs']}", key="inputs-order")
    if case["outputs"] is None:
        exp = sorted(map(tuple, fock(nv, nph)))
        got = sorted(map(tuple, r_out))
        if got != exp:
            raise Violation(f"outputs=None gave {len(got)} outputs, not the {len(exp)}-state Fock basis "
                            f"exactly once", key="output-basis")
    else:
        if r_out != [list(s) for s in case["outputs"]]:
            raise Violation("result outputs differ from given outputs", key="outputs-order")
    if arr.shape != (len(r_in), len(r_out)):
        raise Violation(f"array shape {arr.shape}", key="array-shape")
    for i, vin in enumerate(r_in):
        for j, vout in enumerate(r_out):
            ref = real_heralded_amp(c, vin, vout)
            if not abs(arr[i, j] - ref) <= TOL:
                raise Violation(f"amplitude {vin}->{vout}: simulator {arr[i, j]:.6g}, permanent formula "
                                f"{ref:.6g}", key="amplitude-mismatch")
    s = gen.program_stats(prog)
    lossless = s["loss"] == 0
    no_heralds = not c.heralds["input"]
    if lossless and no_heralds and case["outputs"] is None:
        for i in range(len(r_in)):
            norm = float(np.sum(np.abs(arr[i]) ** 2))
            if not abs(norm - 1) <= 1e-9:
                raise Violation(f"lossless circuit: sum |a|^2 = {norm}", key="not-normalised")
    bunched = any(max(s_, default=0) >= 2 for s_ in r_in + r_out)
    hp = sum(c.heralds["input"].values())
    labels = []
    if bunched:
        labels.append("bunched")
    if hp:
        labels.append("herald-photons")
    if s["loss"]:
        labels.append("lossy")
    if lossless and no_heralds and case["outputs"] is None:
        labels.append("unit-vector-checked")
    nt = nph >= 2 and (bunched or hp > 0 or s["loss"] > 0)
    return {"nontrivial": nt, "labels": labels}


@st.composite
def bad_case(draw):
    prog = draw(gen.program(min_n=2, max_n=4, depth=1, max_ops=4))
    nv = prog["n"] - gen.count_heralds(prog)
    nph = draw(st.integers(1, 3))
    good = draw(gen.fock_state(nv, nph))
    kind = draw(st.sampled_from(["short", "long", "negative", "float", "bool", "in-mismatch",
                                 "out-mismatch", "out-length", "not-state", "out-not-state",
                                 "float-int-valued"]))
    return {"prog": prog, "good": good, "kind": kind, "pos": draw(st.integers(0, nv - 1)),
            "extra": draw(st.integers(1, 2)), "bare": draw(st.booleans()),
            "form": draw(st.sampled_from(["list", "list", "tuple", "ndarray"]))}


def run_bad(case):
    import lightworks as lw
    from lightworks import emulator
    from lightworks.emulator import ModeMismatchError, PhotonNumberError
    c = call("build", build_real, case["prog"])
    sim = emulator.Simulator(c)
    good = list(case["good"])
    k, pos = case["kind"], case["pos"]
    form = {"list": list, "tuple": tuple, "ndarray": np.array}[case.get("form", "list")]
    if k in ("not-state", "out-not-state"):
        form = list

    class Lazy:                       # a State built only inside the guarded call, from a list / tuple / ndarray
        def __init__(self, v):
            self.v = v

        def make(self):
            return lw.State(form(self.v))
    S = Lazy
    outs = None
    excs = (ModeMismatchError, PhotonNumberError, TypeError, ValueError)
    if k == "short":
        ins = [S(good[:-1])]; excs = (ModeMismatchError,)
    elif k == "long":
        ins = [S(good + [0] * case["extra"])]; excs = (ModeMismatchError,)
    elif k == "negative":
        b = list(good); b[pos] = -case["extra"]; ins = [S(b)]; excs = (ValueError,)
    elif k == "float":
        b = list(good); b[pos] = b[pos] + 0.5; ins = [S(b)]; excs = (TypeError, ValueError)
    elif k == "float-int-valued":
        b = list(good); b[pos] = float(b[pos]); ins = [S(b)]; excs = (TypeError, ValueError)
    elif k == "bool":
        b = list(good); b[pos] = True; ins = [S(b)]; excs = (TypeError, ValueError)
    elif k == "in-mismatch":
        b = list(good); b[pos] += case["extra"]; ins = [S(good), S(b)]; excs = (PhotonNumberError,)
    elif k == "out-mismatch":
        b = list(good); b[pos] += case["extra"]; ins = [S(good)]; outs = [S(b)]; excs = (PhotonNumberError,)
    elif k == "out-length":
        ins = [S(good)]; outs = [S(good + [0])]; excs = (ModeMismatchError,)
    elif k == "not-state":
        ins = [good]; excs = (TypeError,)
    else:
        ins = [S(good)]; outs = [good]; excs = (TypeError,)
    labels = [k]
    if case.get("bare"):
        # single states may be given without a list (documented for inputs and accepted for outputs)
        if len(ins) == 1 and k != "not-state":
            ins = ins[0]
            labels.append("bare-input")
        if outs is not None and len(outs) == 1 and k != "out-not-state":
            outs = outs[0]
            labels.append("bare-output")
    def realise(x):
        if isinstance(x, Lazy):
            return x.make()
        if isinstance(x, list) and any(isinstance(y, Lazy) for y in x):
            return [realise(y) for y in x]
        return x

    def attempt():
        return sim.simulate(realise(ins), realise(outs))
    if form is not list:
        # building the State may already refuse the values: any of the documented exception types counts
        excs = tuple(set(excs) | {TypeError, ValueError})
        labels.append("state-from-" + case["form"])
    expect_raises(f"simulate({k})", excs, attempt)
    return {"nontrivial": True, "labels": labels}


def two_mode():
    from checks.c04 import two_mode_case
    return two_mode_case(big=False)


def subs(tier):
    q = tier == "quick"
    return [
        Sub("amplitudes", run_sim, strategy=sim_case(big=not q), examples=120 if q else 8000),
        Sub("bunched", run_sim, strategy=bunched_case(big=not q), examples=60 if q else 4000),
        Sub("many-photons-two-modes", run_two_mode, strategy=two_mode(), examples=20 if q else 300),
        Sub("fully-heralded", run_sim, strategy=fully_heralded_case(), examples=30 if q else 1500),
        Sub("live-circuit", run_live, strategy=live_case(), examples=60 if q else 3000),
        Sub("rejects", run_bad, strategy=bad_case(), examples=60 if q else 2000),
    ]
