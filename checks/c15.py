"""C15 - state tomography reconstructs the prepared state."""
import itertools
import math

import numpy as np
from hypothesis import strategies as st

from vlib import qubits
from vlib.build import snapshot
from vlib.harness import Sub, Violation, call

PROPERTY = "C15"
RULE = ("n = 1..3 qubits; base circuit on 2n visible modes generated from arbitrary single-qubit unitaries (haar 2x2 "
        "blocks), named gates, rotations, CZ/CNOT post-selected or heralded with either target, SWAP, CCZ/CCNOT; the "
        "experiment callback returns the exact heralded, dual-rail post-selected outcome weights of every circuit it "
        "receives (own permanent), optionally with a different total per circuit and with last-place rounding varied; "
        "heralded modes declared directly on the base circuit before / after / inside the qubit register; 0-2 extra "
        "callback arguments (experiment_args). Oracle: rho = |psi><psi| with psi the first column of the Kronecker-algebra "
        "reference unitary (1e-8), Hermitian, unit trace, fidelity 1 (1e-6); the callback receives exactly 3^n "
        "circuits which are, bijectively, the base circuit followed by the basis changes of the settings {X,Y,Z}^n "
        "(compared through U_full up to output phases); base circuit snapshot unchanged; a second process() call "
        "after an in-place edit of the base circuit reflects the edit. Non-trivial = state with a non-real amplitude "
        "ratio or entanglement; distinct = case JSON. Thorough tier shards run under different PYTHONHASHSEED "
        "values (the request order comes from iterating a set)."
        " The callback may also consume the list it is handed, edit the circuits it is handed, or return numpy scalars; matrices returned by earlier process() calls must not change later.")
ASSUMPTIONS = [
    "a post-selected entangling gate is only followed by local gates on its qubits (otherwise it does not "
    "implement its unitary); heralded gates anywhere",
    "basis-change circuits are compared up to phases on the output modes (they do not affect outcomes)",
]
MEAS = {"X": qubits.Hd, "Y": qubits.Hd @ np.diag([1, -1j]), "Z": qubits.I2}


def shard_env(k):
    return {"PYTHONHASHSEED": str(k)}


@st.composite
def tomo_case(draw, n=None):
    n = n or draw(st.sampled_from([1, 1, 2, 2, 2, 3]))
    kind = draw(st.integers(0, 3))
    if kind in (0, 3):
        prog = draw(qubits.clifford_program(n, max_gates=6))       # exact zeros in the state
    elif n >= 2 and kind == 1:
        prog = draw(qubits.entangling_program(n, max_heralded=1))
    else:
        prog = draw(qubits.qubit_program(n, max_gates=5 if n < 3 else 4, max_heralded=1))
    if draw(st.integers(0, 2)) == 0:
        # heralds declared directly on the base circuit (outside the qubit modes)
        prog = dict(prog)
        if draw(st.booleans()):
            prog["pad"] = draw(st.sampled_from([[1, 0], [0, 1], [1, 1], [2, 0], [1, 1], [1, 2]]))
            if min(prog["pad"]) >= 1 and draw(st.booleans()):
                prog["cross"] = True       # first and last mode heralded crosswise, with different photon numbers
        else:
            # ... at arbitrary positions, also between the two rails of a qubit
            k = draw(st.integers(1, 2))
            prog["hpos"] = sorted(draw(st.lists(st.integers(0, 2 * n + k - 1), unique=True, min_size=k, max_size=k)))
    return {"prog": prog, "edit": draw(st.booleans()), "edit_seed": draw(st.integers(0, 999)),
            "ulp_seed": draw(st.one_of(st.none(), st.integers(0, 10 ** 6))),
            "scale_seed": draw(st.one_of(st.none(), st.integers(0, 10 ** 6))),
            "n_args": draw(st.sampled_from([0, 0, 1, 2])), "args_given": draw(st.booleans()),
            # how the user's callback treats what it is handed / what it hands back
            "cb_mode": draw(st.sampled_from(["plain", "plain", "consume", "scribble", "np32", "np64"])),
            # the base circuit may contain a Parameter which the callback itself sets before it runs the circuits (a
            # sweep driven from inside the experiment): [value at construction, value set by the callback]
            "param": draw(st.one_of(st.none(), st.none(), st.sampled_from([[0.0, 1.3], [0.4, -2.0], [1.0, 0.0]])))}


def run_tomo(case):
    import lightworks as lw
    from lightworks import tomography
    prog = case["prog"]
    n = prog["n"]
    base = call("build base", qubits.build_real, prog)
    V = qubits.reference_unitary(prog)
    received = []
    live = None
    if case.get("param"):
        live = lw.Parameter(case["param"][0])
        pg = lw.Circuit(2)
        pg.ps(1, live)
        qubits.add_on_qubit(base, prog, 0, pg)
        V = qubits.on_qubit(n, 0, np.diag([1, np.exp(1j * case["param"][1])])) @ V

    # optional extra arguments for the callback (experiment_args): 0-2 distinct objects, passed through untouched
    extra = [("arg", k) for k in range(case.get("n_args", 0))]

    def experiment(circuits, *args):
        if list(args) != extra or any(a is not b for a, b in zip(args, extra)):
            raise Violation(f"experiment callback received extra arguments {args!r}, experiment_args was {extra!r}",
                            key="experiment-args")
        mode = case.get("cb_mode", "plain")
        if live is not None:
            live.set(case["param"][1])
        received.append([c.copy() for c in circuits] if mode == "scribble" else list(circuits))
        us, ss = case.get("ulp_seed"), case.get("scale_seed")
        if mode == "consume":
            # a callback that works its way through the list it was given by taking the circuits off it
            todo, i, res = circuits, 0, []
            while todo:
                c = todo.pop(0)
                res.append(qubits.exact_counts(c, n, [1, 0] * n, qubits.ulp_choice(us, i),
                                               scale=qubits.scale_choice(ss, i)))
                i += 1
            return res
        res = [qubits.exact_counts(c, n, [1, 0] * n, qubits.ulp_choice(us, i), scale=qubits.scale_choice(ss, i))
               for i, c in enumerate(circuits)]
        if mode == "scribble":
            # a callback that prepares the circuits it was handed for its own hardware model: they are its to edit
            for c in circuits:
                c.ps(0, 0.3)
                c.loss(c.input_modes - 1, 0.25)
        if mode in ("np32", "np64"):
            # frequencies as numpy scalars (what numpy-based post-processing hands back)
            cast = np.float32 if mode == "np32" else np.float64
            res = [{k: cast(v) for k, v in r.items()} for r in res]
        return res

    if extra or case.get("args_given"):
        tomo = call("StateTomography()", tomography.StateTomography, n, base, experiment, experiment_args=extra)
    else:
        tomo = call("StateTomography()", tomography.StateTomography, n, base, experiment)
    if live is not None:
        live.set(case["param"][1])         # the reference snapshot is the base circuit at the value the callback will set
        snap = snapshot(base)
        live.set(case["param"][0])
    else:
        snap = snapshot(base)
    labels = set()

    tol_rho, tol_f = (1e-5, 1e-4) if case.get("cb_mode") == "np32" else (1e-8, 1e-6)
    labels.add("callback:" + case.get("cb_mode", "plain"))
    kept = []

    def one_round(V, tag):
        received.clear()
        rho = call("process", tomo.process)
        for old, old_copy in kept:
            if not np.array_equal(np.asarray(old), old_copy):
                raise Violation(f"{tag}: the matrix returned by an earlier process() call changed afterwards",
                                key="earlier-result-overwritten")
        kept.append((rho, np.array(rho, copy=True)))
        if not np.array_equal(np.asarray(tomo.rho), np.asarray(rho)):
            raise Violation("the rho attribute differs from the matrix process() returned", key="rho-attribute")
        if snapshot(base) != snap_now[0]:
            raise Violation("state tomography changed its base circuit", key="base-circuit-modified")
        circs = received[0]
        if len(received) != 1 or len(circs) != 3 ** n:
            raise Violation(f"callback received {len(circs)} circuits, expected {3 ** n}", key="circuit-count")
        # expected circuits: base followed by the basis change of each setting
        Ub = base.U_full
        used = set()
        settings = list(itertools.product("XYZ", repeat=n))
        expected = {}
        for stg in settings:
            e = base.copy()
            for q, m in enumerate(stg):
                qubits.add_on_qubit(e, prog, q, lw.Unitary(MEAS[m]))      # basis change on the rails of qubit q
            expected[stg] = e.U_full
        cross = bool(prog.get("cross"))
        if cross:
            # crossed heralds: the requested circuits may place and route the heralded modes as they like, so they are
            # compared through what can be observed - the matrix of heralded dual-rail amplitudes, up to a phase per
            # output pattern - instead of through U_full and the herald dictionaries
            from vlib.refmodel import real_heralded_amp

            def amp_matrix(circ):
                outs = qubits.dual_rail_outputs(n)
                return np.array([[real_heralded_amp(circ, vin, o) for vin in outs] for o in outs])
            exp_amp = {}
            for stg in settings:
                e = base.copy()
                for q, m in enumerate(stg):
                    qubits.add_on_qubit(e, prog, q, lw.Unitary(MEAS[m]))
                exp_amp[stg] = amp_matrix(e)
        for c in circs:
            if cross:
                if (sorted(c.heralds["input"].values()) != sorted(base.heralds["input"].values())
                        or sorted(c.heralds["output"].values()) != sorted(base.heralds["output"].values())
                        or c.input_modes != 2 * n):
                    raise Violation("a requested circuit does not keep the base circuit's herald photon numbers / size",
                                    key="circuit-not-base-plus-measurement")
                Mc = amp_matrix(c)
                match = None
                for stg, Me in exp_amp.items():
                    ok = True
                    for row_c, row_e in zip(Mc, Me):
                        ne = np.linalg.norm(row_e)
                        if ne < 1e-9:
                            ok = ok and np.linalg.norm(row_c) < 1e-9
                            continue
                        ph = np.vdot(row_e, row_c) / ne ** 2
                        ok = ok and abs(abs(ph) - 1) < 1e-9 and np.abs(row_c - ph * row_e).max() < 1e-9
                    if ok:
                        match = stg
                        break
                if match is None:
                    raise Violation(f"{tag}: a requested circuit does not act as the current base circuit followed by "
                                    f"single-qubit basis changes", key="circuit-not-base-plus-measurement")
                if match in used:
                    raise Violation(f"measurement setting {match} requested twice", key="setting-duplicated")
                used.add(match)
                continue
            if c.heralds != base.heralds or c.input_modes != 2 * n:
                raise Violation("a requested circuit does not keep the base circuit's heralds / size",
                                key="circuit-not-base-plus-measurement")
            Uc = c.U_full
            match = None
            for stg, Ue in expected.items():
                if Ue.shape != Uc.shape:
                    continue
                R = Uc @ Ue.conj().T
                off = R - np.diag(np.diag(R))
                if np.abs(off).max() < 1e-9 and np.abs(np.abs(np.diag(R)) - 1).max() < 1e-9:
                    match = stg
                    break
            if match is None:
                raise Violation(f"{tag}: a requested circuit is not the current base circuit followed by "
                                f"single-qubit basis changes", key="circuit-not-base-plus-measurement")
            if match in used:
                raise Violation(f"measurement setting {match} requested twice", key="setting-duplicated")
            used.add(match)
        psi = V[:, 0] / np.linalg.norm(V[:, 0])
        rho_exp = np.outer(psi, psi.conj())
        if np.abs(rho - rho.conj().T).max() > 1e-9:
            raise Violation("rho is not Hermitian", key="rho-not-hermitian")
        if abs(np.trace(rho) - 1) > 1e-9:
            raise Violation(f"trace(rho) = {np.trace(rho)}", key="rho-trace")
        err = np.abs(rho - rho_exp).max()
        if err > tol_rho:
            raise Violation(f"{tag}: rho differs from |psi><psi| of the prepared state by {err:.4g}",
                            key="rho-mismatch")
        f = call("fidelity", tomo.fidelity, rho_exp)
        if abs(f - 1) > tol_f:
            raise Violation(f"fidelity against the prepared state = {f}", key="fidelity")
        return psi

    snap_now = [snap]
    psi = one_round(V, "first process()")
    if case["edit"]:
        # structural in-place edit of the base circuit, then process() again on the same object
        W = qubits.make_unitary("haar", 2, case["edit_seed"])
        qubits.add_on_qubit(base, prog, 0, lw.Unitary(W))
        # the extra callback arguments change as well: the supplied list is extended in place, or (if none was
        # supplied) the public attribute is assigned
        extra.append(("arg", "added-before-the-second-run"))
        if tomo.experiment_args is not extra:
            tomo.experiment_args = extra
        snap_now[0] = snapshot(base)
        V2 = qubits.on_qubit(n, 0, W) @ V
        one_round(V2, "process() after editing the base circuit")
        labels.add("re-run-after-edit")
    ratios = psi[np.abs(psi) > 1e-6]
    nonreal = bool(np.abs(np.imag(ratios / ratios[0])).max() > 1e-6) if len(ratios) else False
    entangled = False
    if n >= 2:
        m = psi.reshape(2, -1)
        sv = np.linalg.svd(m, compute_uv=False)
        entangled = bool(sv[1] > 1e-6) if len(sv) > 1 else False
    if nonreal:
        labels.add("non-real-amplitudes")
    if entangled:
        labels.add("entangled")
    labels.add(f"n={n}")
    if qubits.herald_photons(prog):
        labels.add("heralded-gate")
    if "pad" in prog or "hpos" in prog:
        labels.add("heralds-declared-on-base-circuit")
    if prog.get("cross"):
        labels.add("crossed-heralds-with-different-photon-numbers")
    if live is not None:
        labels.add("parameter-set-by-the-callback")
    if "hpos" in prog and any(m % 2 == 1 and m < 2 * n + len(prog["hpos"]) for m in prog["hpos"]):
        labels.add("herald-mode-inside-the-qubit-register")
    if case.get("scale_seed") is not None:
        labels.add("totals-differ-between-circuits")
    if case.get("ulp_seed") is not None:
        labels.add("last-place-rounding-varied")
    return {"nontrivial": nonreal or entangled, "labels": sorted(labels)}


def bell_family(full):
    """pre(q0) pre(q1) H(q0) CNOT post(q0) post(q1) over named single-qubit gates: pure states with exactly
    vanishing populations and coherences, with the callback's last-place rounding varied per case."""
    names = ["I", "X", "Y", "Z", "H", "S", "Sadj"]
    for idx, (a, b, c, d) in enumerate(itertools.product(names, repeat=4)):
        if not full and idx % 3:
            continue
        for rep in range(6 if full else 4):
            yield {"prog": {"n": 2, "gates": [[a, 0, {}], [b, 1, {}], ["H", 0, {}],
                                              ["CNOT", 0, {"target_qubit": 1}], [c, 0, {}], [d, 1, {}]]},
                   "edit": False, "edit_seed": 0, "ulp_seed": idx + 5000 * rep}


def subs(tier):
    q = tier == "quick"
    return [
        Sub("one-qubit", run_tomo, strategy=tomo_case(1), examples=60 if q else 2000),
        Sub("two-qubit", run_tomo, strategy=tomo_case(2), examples=50 if q else 1500),
        Sub("bell-family", run_tomo, cases=lambda: bell_family(full=not q), exhaustive=True),
        Sub("three-qubit", run_tomo, strategy=tomo_case(3), examples=12 if q else 300),
    ]
