"""C13 - the qubit gate library implements the gates it names."""
import itertools
import math

import numpy as np
from hypothesis import strategies as st

from vlib.harness import Sub, Violation, call, expect_raises
from vlib.refmodel import fock, real_heralded_amp

PROPERTY = "C13"
RULE = ("Finite part enumerated exhaustively: I,H,X,Y,Z,S,Sadj,T,Tadj,SX; CZ, CNOT(0|1), CZ_Heralded, "
        "CNOT_Heralded(0|1), CCZ, CCNOT(0|1|2); SWAP over all 360 ordered choices of two disjoint mode pairs "
        "within 6 modes (all 1680 within 8 modes in the thorough tier); invalid target_qubit / malformed SWAP "
        "arguments. Continuous part generated: Rx, Ry, Rz, P with angles from {0, +-pi/2, +-pi, 2pi, tiny, +-50, "
        "generic floats in [-8pi, 8pi], many turns up to 1e13, all multiples of pi/4 up to 4pi}; SWAP also between rails anywhere within 70 modes. Oracle: matrix of heralded amplitudes on the dual-rail basis (own "
        "permanent on the real U_full) equals k x the named gate built from plain Kronecker algebra (qubit 0 the "
        "left-most factor), residual <= 1e-9, |k|^2 in {1, 1/9, 1/16, 1/72} as stated; heralded gates: every "
        "accepted output outside the qubit subspace vanishes; Simulator over all basis inputs agrees. Every case "
        "is distinct (gate/option/angle); non-trivial = the gate is not the identity.")
ASSUMPTIONS = ["standard gate definitions: Rx = exp(-i theta X/2), Ry = exp(-i theta Y/2), Rz = exp(-i theta Z/2), "
               "P = diag(1, e^{i theta}), SX = sqrt(X) with det e^{i pi/2}",
               "a global phase is part of the allowed common scalar"]
EXHAUSTIVE = True
TOL = 1e-9
I2 = np.eye(2)
X = np.array([[0, 1], [1, 0]], dtype=complex)
Y = np.array([[0, -1j], [1j, 0]])
Z = np.diag([1, -1]).astype(complex)
H = (X + Z) / math.sqrt(2)
P0 = np.diag([1, 0]).astype(complex)
P1 = np.diag([0, 1]).astype(complex)


def kron(*ms):
    out = np.array([[1.0 + 0j]])
    for m in ms:
        out = np.kron(out, m)
    return out


def controlled(n, controls, target, op):
    """op on `target` when all `controls` are 1; qubit 0 is the left-most factor."""
    dim = 2 ** n
    out = np.zeros((dim, dim), dtype=complex)
    for bits in itertools.product([0, 1], repeat=len(controls)):
        fs = [I2] * n
        for c, b in zip(controls, bits):
            fs[c] = P1 if b else P0
        if all(bits):
            fs[target] = op
        out += kron(*fs)
    return out


def named_matrix(name, kw):
    th = kw.get("theta", 0.0)
    c, s = math.cos(th / 2), math.sin(th / 2)
    single = {
        "I": I2, "H": H, "X": X, "Y": Y, "Z": Z, "S": np.diag([1, 1j]), "Sadj": np.diag([1, -1j]),
        "T": np.diag([1, np.exp(1j * math.pi / 4)]), "Tadj": np.diag([1, np.exp(-1j * math.pi / 4)]),
        "SX": 0.5 * np.array([[1 + 1j, 1 - 1j], [1 - 1j, 1 + 1j]]),
        "Rx": np.array([[c, -1j * s], [-1j * s, c]]), "Ry": np.array([[c, -s], [s, c]], dtype=complex),
        "Rz": np.diag([np.exp(-1j * th / 2), np.exp(1j * th / 2)]), "P": np.diag([1, np.exp(1j * th)]),
    }
    if name in single:
        return np.asarray(single[name], dtype=complex), 1, 1.0
    t = kw.get("target_qubit")
    if name in ("CZ", "CZ_Heralded"):
        return controlled(2, [0], 1, Z), 2, (1 / 9 if name == "CZ" else 1 / 16)
    if name in ("CNOT", "CNOT_Heralded"):
        return controlled(2, [1 - t], t, X), 2, (1 / 9 if name == "CNOT" else 1 / 16)
    if name == "CCZ":
        return controlled(3, [0, 1], 2, Z), 3, 1 / 72
    if name == "CCNOT":
        return controlled(3, [q for q in range(3) if q != t], t, X), 3, 1 / 72
    raise ValueError(name)


def amplitude_matrix(circ, n, heralded):
    """M[out, in] over the dual-rail basis, qubit 0 = most significant bit."""
    dim = 2 ** n

    def idx(o):
        i = 0
        for q in range(n):
            pair = (o[2 * q], o[2 * q + 1])
            if pair == (0, 1):
                i |= 1 << (n - 1 - q)
            elif pair != (1, 0):
                return None
        return i
    outs = [(o, idx(o)) for o in fock(2 * n, n)]
    M = np.zeros((dim, dim), dtype=complex)
    for b in range(dim):
        vin = []
        for q in range(n):
            vin += [0, 1] if (b >> (n - 1 - q)) & 1 else [1, 0]
        for o, qi in outs:
            if qi is None and not heralded:
                continue                    # removed by the gate's stated post-selection
            a = real_heralded_amp(circ, vin, list(o))
            if qi is None:
                if abs(a) > TOL:
                    raise Violation(f"heralded gate: output {list(o)} outside the qubit subspace has amplitude "
                                    f"{a:.6g}", key="leak-outside-qubit-subspace")
            else:
                M[qi, b] = a
    return M


def run_gate(case):
    import lightworks as lw
    from lightworks import emulator, qubit
    name, kw = case["gate"], dict(case["kw"])
    V, n, k2 = named_matrix(name, kw)
    if name in ("Rx", "Ry", "Rz", "P"):
        g = call(f"{name}({kw['theta']})", getattr(qubit, name), kw["theta"])
    else:
        g = call(f"{name}({kw})", getattr(qubit, name), **kw)
    if g.input_modes != 2 * n:
        raise Violation(f"{name} exposes {g.input_modes} modes for {n} qubit(s)", key="mode-count")
    M = amplitude_matrix(g, n, "Heralded" in name)
    k = np.vdot(V, M) / np.vdot(V, V)
    res = np.abs(M - k * V).max()
    if res > TOL:
        raise Violation(f"{name}{kw}: amplitudes are not a common scalar times the named gate (residual {res:.4g}, "
                        f"k = {k:.5g})", key=f"wrong-gate:{name}")
    if abs(abs(k) ** 2 - k2) > 1e-9:
        raise Violation(f"{name}{kw}: |k|^2 = {abs(k) ** 2:.9g}, stated {k2:.9g}", key=f"wrong-scalar:{name}")
    # Simulator on all basis inputs agrees (amplitude level => all superpositions by linearity)
    basis = []
    for b in range(2 ** n):
        vin = []
        for q in range(n):
            vin += [0, 1] if (b >> (n - 1 - q)) & 1 else [1, 0]
        basis.append(lw.State(vin))
    r = call("simulate", emulator.Simulator(g).simulate, basis, basis)
    if np.abs(np.asarray(r.array).T - M).max() > TOL:
        raise Violation(f"{name}: Simulator disagrees with the amplitude matrix", key="simulator-disagrees")
    # the gate keeps implementing its matrix whatever the caller does to the arrays the gate handed out
    for arr in (g.U_full, g.U):
        try:
            arr[...] = arr @ arr
        except (ValueError, TypeError):
            pass
    M2 = amplitude_matrix(g, n, "Heralded" in name)
    if np.abs(M2 - M).max() > TOL:
        raise Violation(f"{name}{kw}: the gate acts differently after the caller overwrote, in place, the matrix it "
                        f"got from U / U_full", key="gate-matrix-aliased")
    # A gate object is a circuit of the user's: a copy of it may be unpacked and extended, and the object itself may be
    # extended - neither may change what the library's constructor hands out next, nor (for the copy) the object.
    def build():
        if name in ("Rx", "Ry", "Rz", "P"):
            return getattr(qubit, name)(kw["theta"])
        return getattr(qubit, name)(**kw)
    dup = call("copy", g.copy)
    call("copy.unpack_groups", dup.unpack_groups)
    call("copy.ps", dup.ps, 0, 0.7)
    call("copy.bs", dup.bs, 0, 1)
    M3 = amplitude_matrix(g, n, "Heralded" in name)
    if np.abs(M3 - M).max() > TOL:
        raise Violation(f"{name}{kw}: the gate acts differently after a copy of it was unpacked and extended",
                        key="gate-shares-structure-with-copy")
    call("gate.ps", g.ps, 0, 0.9)                 # now the object itself is extended ...
    call("gate.bs", g.bs, 0, 1)
    g2 = call(f"{name}() again", build)
    M4 = amplitude_matrix(g2, n, "Heralded" in name)      # ... and a newly constructed gate is still the named gate
    if np.abs(M4 - M).max() > TOL:
        raise Violation(f"{name}{kw}: a newly constructed gate is not the named gate any more after an earlier "
                        f"instance was extended through the Circuit API", key="gate-instances-shared")
    return {"nontrivial": np.abs(V - np.eye(2 ** n)).max() > 1e-9, "labels": [name]}


def fixed_gate_cases():
    for g in ["I", "H", "X", "Y", "Z", "S", "Sadj", "T", "Tadj", "SX", "CZ", "CZ_Heralded", "CCZ"]:
        yield {"gate": g, "kw": {}}
    for g in ["CNOT", "CNOT_Heralded"]:
        for t in (0, 1):
            yield {"gate": g, "kw": {"target_qubit": t}}
    for t in (0, 1, 2):
        yield {"gate": "CCNOT", "kw": {"target_qubit": t}}


ANGLES = [0.0, math.pi / 2, -math.pi / 2, math.pi, -math.pi, 2 * math.pi, 1e-9, -1e-9, 50.0, -50.0, 3 * math.pi,
          -2.5 * math.pi, 0.7, -0.7,
          # "every rotation angle": many turns. sin/cos of a double are computed to the last bit for any magnitude
          # (exact argument reduction), so the reference stays exact; -math.pi / 4 etc. are the named-gate angles
          1e9, -3e10, 1e12 + 0.5, 12345678.9, math.pi / 4, -math.pi / 4, 4 * math.pi, -4 * math.pi, 1e3 * math.pi]


def fixed_angle_cases():
    for g in ["Rx", "Ry", "Rz", "P"]:
        for a in ANGLES:
            yield {"gate": g, "kw": {"theta": a}}


def swap_cases(n_modes):
    for a0, a1, b0, b1 in itertools.permutations(range(n_modes), 4):
        yield {"q1": [a0, a1], "q2": [b0, b1]}


def run_swap(case):
    from lightworks import qubit
    (a0, a1), (b0, b1) = case["q1"], case["q2"]
    g = call("SWAP", qubit.SWAP, (a0, a1), (b0, b1))
    n = max(a0, a1, b0, b1) + 1
    if g.n_modes != n:
        raise Violation(f"SWAP has {g.n_modes} modes, expected {n}", key="swap-modes")
    for A in (0, 1):
        for B in (0, 1):
            vin = [0] * n
            vin[a1 if A else a0] += 1
            vin[b1 if B else b0] += 1
            tot = 0.0
            for A2 in (0, 1):
                for B2 in (0, 1):
                    vout = [0] * n
                    vout[a1 if A2 else a0] += 1
                    vout[b1 if B2 else b0] += 1
                    amp = real_heralded_amp(g, vin, vout)
                    want = 1.0 if (A2, B2) == (B, A) else 0.0
                    if abs(abs(amp) - want) > TOL or (want and abs(amp - 1) > TOL):
                        raise Violation(f"SWAP({case['q1']},{case['q2']}): |{A}{B}> -> |{A2}{B2}> has amplitude "
                                        f"{amp:.6g}, expected {want}", key="wrong-gate:SWAP")
                    tot += abs(amp) ** 2
            if abs(tot - 1) > TOL:
                raise Violation("SWAP leaks outside the qubit subspace", key="wrong-gate:SWAP")
    labs = []
    if a0 > a1 or b0 > b1:
        labs.append("reversed-rail-order")
    if abs(a0 - a1) > 1 or abs(b0 - b1) > 1:
        labs.append("non-adjacent-rails")
    return {"nontrivial": True, "labels": labs}


@st.composite
def wide_swap_case(draw):
    """SWAP between qubits whose rails lie anywhere within 70 modes (a register far down a large chip)."""
    top = draw(st.sampled_from([8, 31, 32, 33, 40, 64, 69]))
    ms = draw(st.lists(st.integers(0, top), min_size=4, max_size=4, unique=True))
    if draw(st.booleans()):
        ms[draw(st.integers(0, 3))] = top
        if len(set(ms)) < 4:
            ms = [top, top - 1, top - 2, top - 3]
    return {"q1": [ms[0], ms[1]], "q2": [ms[2], ms[3]]}


def run_invalid(case):
    from lightworks import qubit
    k = case["kind"]
    if k == "cnot-target":
        expect_raises("CNOT(target)", (ValueError, TypeError), qubit.CNOT, case["v"])
    elif k == "cnot-heralded-target":
        expect_raises("CNOT_Heralded(target)", (ValueError, TypeError), qubit.CNOT_Heralded, case["v"])
    elif k == "ccnot-target":
        expect_raises("CCNOT(target)", (ValueError, TypeError), qubit.CCNOT, case["v"])
    elif k == "swap-len":
        expect_raises("SWAP(len)", (ValueError, TypeError), qubit.SWAP, tuple(case["a"]), (0, 1))
    elif k == "swap-type":
        expect_raises("SWAP(type)", (ValueError, TypeError), qubit.SWAP, (0, 1.5), (2, 3))
    return {"nontrivial": True, "labels": [k]}


def invalid_cases():
    for v in (2, -1, 3, 1.5, "a"):
        yield {"kind": "cnot-target", "v": v}
        yield {"kind": "cnot-heralded-target", "v": v}
    for v in (3, -1, 7):
        yield {"kind": "ccnot-target", "v": v}
    for a in ([0], [0, 1, 2], []):
        yield {"kind": "swap-len", "a": a}
    yield {"kind": "swap-type"}


def subs(tier):
    q = tier == "quick"
    ang = st.fixed_dictionaries({
        "gate": st.sampled_from(["Rx", "Ry", "Rz", "P"]),
        "kw": st.fixed_dictionaries({"theta": st.one_of(
            st.floats(-8 * math.pi, 8 * math.pi, allow_nan=False), st.sampled_from(ANGLES),
            st.floats(-1e-6, 1e-6), st.integers(-7, 7), st.floats(-1e13, 1e13, allow_nan=False),
            st.sampled_from([j * math.pi / 4 for j in range(-16, 17)]))}),
    })
    return [
        Sub("fixed-gates", run_gate, cases=lambda: itertools.chain(fixed_gate_cases(), fixed_angle_cases()),
            exhaustive=True),
        Sub("rotation-angles", run_gate, strategy=ang, examples=60 if q else 20000),
        Sub("swap-all-mode-pairs", run_swap, cases=lambda: swap_cases(6 if q else 8), exhaustive=True),
        Sub("swap-wide", run_swap, strategy=wide_swap_case(), examples=15 if q else 2000),
        Sub("invalid-options", run_invalid, cases=invalid_cases, exhaustive=True),
    ]
