"""C04 - Sampler distribution is normalised, exact and the same for both backends."""
import math

import numpy as np
from hypothesis import strategies as st

from vlib import gen
from vlib.build import build_real
from vlib.harness import Sub, Violation, call
from vlib.refmodel import marginal_distribution

PROPERTY = "C04"
RULE = ("Circuits from the program generators (lossless / loss elements anywhere incl. loss 0 and 1 / "
        "lossy shorthands / nested heralded additions / external heralds with photons), inputs with 0-3(4) "
        "photons incl. vacuum and bunched, both backends (named by string or given as Backend object), ideal source; "
        "exactly-valued interferometers (Hadamard / DFT / permutation blocks, qubit-library gates, 50:50 splitters) "
        "followed by loss with photons in >= 2 inputs; routing-only circuits (swaps with long cycles, permutation "
        "blocks, phases, zero loss). Oracle: marginal over loss modes "
        "of the exact Fock distribution computed with own permanent from the real U_full and heralds. "
        "Non-trivial = (lossy and >= 2 injected photons) or a herald carrying photons; distinct = "
        "distinct case JSON."
        " Also: two or three circuits with equal totals of circuit + loss modes and equal photon numbers computed one after the other by the same Backend / Sampler object.")
ASSUMPTIONS = [
    "per-pattern tolerance = (number of photon patterns on the circuit modes) x 1e-9 (documented truncation, applied per pattern) + 1e-9",
    "ideal Source(); detector not involved in probability_distribution",
]


@st.composite
def dist_case(draw, big=False):
    kind = draw(st.integers(0, 3))
    if kind == 0:
        prog = draw(gen.program(min_n=1, max_n=5, depth=2, max_ops=6, max_herald_photons=2))
    elif kind == 1:
        prog = draw(gen.addition_tree(max_n=4, max_adds=3))
    else:
        prog = draw(gen.flat_program(min_n=1, max_n=5, max_ops=7))
    prog, _ = gen.limit_loss(prog, 6)
    prog = gen.cap_herald_photons(prog, cap=20000 if big else 2000)
    nv = prog["n"] - gen.count_heralds(prog)
    nph = gen.fit_photons(prog, draw(st.integers(0, 4 if big else 3)), cap=20000 if big else 2000)
    return {"prog": prog, "input": draw(gen.fock_state(nv, nph))}


@st.composite
def bunched_case(draw, big=False):
    prog = draw(gen.flat_program(min_n=2, max_n=4, max_ops=6))
    prog, _ = gen.limit_loss(prog, 2)
    nv = prog["n"]
    occ = draw(st.lists(st.sampled_from([0, 2, 2, 3, 1]), min_size=nv, max_size=nv))
    while gen.n_states(prog, sum(occ)) > (30000 if big else 12000) and sum(occ) > 0:
        i = max(range(nv), key=lambda k: occ[k])
        occ[i] -= 1
    return {"prog": prog, "input": occ}


@st.composite
def cancelling_case(draw, big=False):
    """Exactly-valued interferometers (Hadamard / DFT / sign / permutation matrices, the qubit library's gates,
    50:50 beam splitters) followed by loss on several modes, photons in two or more inputs: transition
    amplitudes into loss modes cancel *exactly* for some inputs, which shortcuts based on "is this entry / this
    sum zero" have to survive."""
    n = draw(st.integers(2, 4))
    ops = []
    for _ in range(draw(st.integers(1, 3))):
        k = draw(st.integers(0, 4))
        if k == 0:
            m = draw(st.integers(0, n - 2))
            ops.append(["unitary", m, draw(st.sampled_from(["hadamard", "hadamard", "dft", "perm", "real"])),
                        draw(st.integers(2, n - m)), draw(st.integers(0, 99))])
        elif k == 1:
            ops.append(["gate", draw(st.sampled_from(["H", "H", "X", "Y", "Z", "SX"])), {}, draw(st.integers(0, n - 2))])
        elif k == 2 and n >= 4:
            ops.append(["gate", "CNOT", {"target_qubit": draw(st.integers(0, 1))}, 0])
        elif k == 3:
            m1 = draw(st.integers(0, n - 1))
            m2 = (m1 + draw(st.integers(1, n - 1))) % n
            ops.append(["bs", m1, m2, 0.5, draw(st.sampled_from(["Rx", "H"])), 0])
        else:
            ops.append(["ps", draw(st.integers(0, n - 1)), draw(st.sampled_from([0.0, math.pi, math.pi / 2])), 0])
    for m in draw(st.lists(st.integers(0, n - 1), unique=True, min_size=1, max_size=n)):
        ops.append(["loss", m, draw(st.sampled_from([0.3, 0.5, 0.1, 0.9]))])
    if draw(st.integers(0, 3)) == 0:
        ops.append(["unitary", 0, "hadamard", n, 0])
    prog = {"n": n, "ops": ops}
    extra = 2 * sum(1 for o in ops if o[0] == "gate" and o[1] == "CNOT")
    occ = draw(st.lists(st.sampled_from([1, 1, 0, 2]), min_size=n, max_size=n))
    if sum(1 for x in occ if x) < 2:
        occ[0], occ[1] = 1, 1
    nl = sum(1 for o in ops if o[0] == "loss")
    while math.comb(n + extra + nl + sum(occ) - 1, sum(occ)) > (30000 if big else 12000):
        i = max(range(n), key=lambda j: occ[j])
        occ[i] -= 1
    return {"prog": prog, "input": occ}


@st.composite
def routing_case(draw):
    """Circuits that only route photons: mode swaps (cycles of length >= 3 as often as exchanges), permutation
    blocks, phase shifters, barriers, loss elements with loss exactly 0, heralds; any input."""
    n = draw(st.integers(2, 6))
    ops = []
    for _ in range(draw(st.integers(1, 5))):
        k = draw(st.integers(0, 7))
        if k <= 2:
            keys = draw(st.lists(st.integers(0, n - 1), unique=True, min_size=min(3, n), max_size=n))
            sh = draw(st.integers(1, len(keys) - 1)) if len(keys) > 1 else 0
            ops.append(["swaps", [[keys[i], keys[(i + sh) % len(keys)]] for i in range(len(keys))]])
        elif k == 3:
            ops.append(draw(gen.op_swaps(n)))
        elif k == 4:
            ops.append(draw(gen.op_unitary(n, kinds=["perm", "permphase", "identity", "diag"])))
        elif k == 5:
            ops.append(["ps", draw(st.integers(0, n - 1)), draw(gen.phase), 0])
        elif k == 6:
            ops.append(["loss", draw(st.integers(0, n - 1)), 0])
        else:
            ops.append(draw(gen.op_barrier(n)))
    nh = 0
    if n >= 3 and draw(st.integers(0, 2)) == 0:
        i = draw(st.integers(0, n - 1))
        ops.insert(draw(st.integers(0, len(ops))), ["herald", draw(st.integers(0, 2)), i,
                                                    draw(st.one_of(st.none(), st.integers(0, n - 1)))])
        nh = 1
    prog = {"n": n, "ops": ops}
    return {"prog": prog, "input": draw(gen.fock_state(n - nh, draw(st.integers(0, 4))))}


@st.composite
def reuse_case(draw):
    """One long-lived Sampler; the circuit object is edited between reads."""
    base = draw(dist_case())
    prog = base["prog"]
    base["cut"] = draw(st.integers(0, len(prog["ops"])))
    base["backend"] = draw(st.sampled_from(["permanent", "slos"]))
    return base


def run_reuse(case):
    import lightworks as lw
    from lightworks import emulator
    from vlib.build import apply_real
    prog = case["prog"]
    ops = [op for op in prog["ops"] if op[0] != "plus"]
    # only edits that keep the number of input modes are applied after construction
    c = lw.Circuit(prog["n"])
    early = [op for op in ops if op[0] == "herald"] + [op for op in ops[:case["cut"]] if op[0] != "herald"]
    late = [op for op in ops[case["cut"]:] if op[0] != "herald"]
    for op in early:
        c = call("apply", apply_real, c, op)
    vin = (list(case["input"]) + [0] * c.input_modes)[:c.input_modes]
    smp = emulator.Sampler(c, lw.State(list(vin)), backend=case["backend"])
    ref, injected, n_full = reference(c, vin)
    d = call("first read", lambda: smp.probability_distribution)
    check_dist("Sampler first read", d, ref, injected, n_full, c.n_modes)
    for op in late:
        c = call("apply", apply_real, c, op)
    ref, injected, n_full = reference(c, vin)
    d = call("second read", lambda: smp.probability_distribution)
    check_dist(f"Sampler[{case['backend']}] after editing its circuit", d, ref, injected, n_full, c.n_modes)
    added_loss = any(op[0] == "loss" or (op[0] == "bs" and op[5] > 0) or (op[0] == "ps" and op[3] > 0)
                     for op in late)
    return {"nontrivial": bool(late) and injected >= 1,
            "labels": ["loss-added-between-reads"] if added_loss else []}


# ---------------------------------------------------------------- many loss elements
@st.composite
def many_loss_case(draw):
    """Few modes, tens of small loss elements: every visible pattern is spread over thousands of
    hidden loss configurations."""
    n = draw(st.integers(2, 3))
    ops = []
    small = st.floats(2e-4, 3e-3)
    for _ in range(draw(st.integers(6, 9))):
        a = draw(st.integers(0, n - 2))
        ops.append(["bs", a, a + 1, draw(st.floats(0.2, 0.8)), "Rx", draw(small)])
        ops.append(["ps", draw(st.integers(0, n - 1)), draw(st.floats(0, 6.2)), draw(small)])
    # 4 photons: the patterns with 0 or 1 surviving photon consist only of configurations below 1e-9
    return {"prog": {"n": n, "ops": ops}, "input": draw(gen.fock_state(n, 4)),
            "backend": draw(st.sampled_from(["permanent", "permanent", "slos"]))}


def run_many_loss(case):
    import lightworks as lw
    from lightworks import emulator
    from vlib.refmodel import lossy_marginal
    c = call("build", build_real, case["prog"])
    vin = list(case["input"])
    ref = lossy_marginal(c.U, vin)          # exact, from the n x n transfer matrix alone
    d = call("probability_distribution",
             lambda: emulator.Sampler(c, lw.State(vin), backend=case["backend"]).probability_distribution)
    d = {tuple(k): v for k, v in d.items()}
    tol = len(ref) * 1e-9 + 1e-9            # one truncation allowance per photon pattern
    tot = 0.0
    for k in set(d) | set(ref):
        v, r = d.get(k, 0.0), ref.get(k, 0.0)
        tot += v
        if not abs(v - r) <= tol:
            raise Violation(f"Sampler[{case['backend']}] with {c.U_full.shape[0] - c.n_modes} loss elements: "
                            f"P{k} = {v:.10g}, exact {r:.10g} (difference {abs(v - r):.3g})",
                            key="probability-mismatch-many-loss")
    if not abs(tot - 1) <= tol:
        raise Violation(f"distribution sums to {tot:.10g}", key="not-normalised")
    return {"nontrivial": True, "labels": [f"loss-elements>={(c.U_full.shape[0] - c.n_modes) // 10 * 10}"]}


# ---------------------------------------------------------------- many photons, two modes
@st.composite
def two_mode_case(draw, big=False):
    ops = []
    for _ in range(draw(st.integers(1, 3))):
        ops.append(["bs", 0, 1, draw(st.floats(0.05, 0.95)), draw(gen.conv), 0])
        ops.append(["ps", draw(st.integers(0, 1)), draw(gen.phase), 0])
    top = 26 if big else 24
    n0 = draw(st.integers(0, top))
    n1 = draw(st.integers(0, top - n0))
    return {"prog": {"n": 2, "ops": ops}, "input": [n0, n1]}


def exact_two_mode(U, n0, n1):
    """Exact output probabilities of |n0, n1> through a 2x2 unitary: expansion of
    (U00 x + U10 y)^n0 (U01 x + U11 y)^n1 with exact rational arithmetic on the float entries."""
    from fractions import Fraction
    import math

    def cf(z):
        return (Fraction(float(z.real)), Fraction(float(z.imag)))

    def mul(a, b):
        return (a[0] * b[0] - a[1] * b[1], a[0] * b[1] + a[1] * b[0])

    def poly_pow(a, b, n):
        # coefficients c[j] of x^j y^(n-j) in (a x + b y)^n
        out = []
        pa = [(Fraction(1), Fraction(0))]
        for _ in range(n):
            pa.append(mul(pa[-1], a))
        pb = [(Fraction(1), Fraction(0))]
        for _ in range(n):
            pb.append(mul(pb[-1], b))
        for j in range(n + 1):
            t = mul(pa[j], pb[n - j])
            cmb = math.comb(n, j)
            out.append((t[0] * cmb, t[1] * cmb))
        return out
    A = poly_pow(cf(U[0, 0]), cf(U[1, 0]), n0)
    B = poly_pow(cf(U[0, 1]), cf(U[1, 1]), n1)
    n = n0 + n1
    probs = {}
    for k in range(n + 1):
        re, im = Fraction(0), Fraction(0)
        for j in range(max(0, k - n1), min(n0, k) + 1):
            t = mul(A[j], B[k - j])
            re += t[0]
            im += t[1]
        norm = Fraction(math.factorial(k) * math.factorial(n - k), math.factorial(n0) * math.factorial(n1))
        probs[(k, n - k)] = float((re * re + im * im) * norm)
    return probs


def run_two_mode(case):
    import lightworks as lw
    from lightworks import emulator
    c = call("build", build_real, case["prog"])
    n0, n1 = case["input"]
    n = n0 + n1
    ref = exact_two_mode(c.U, n0, n1)
    backends = ["slos"] + (["permanent"] if n <= 14 else [])
    for backend in backends:
        d = call(f"probability_distribution[{backend}]",
                 lambda b=backend: emulator.Sampler(c, lw.State([n0, n1]), backend=b).probability_distribution)
        tol = (n + 1) * 1e-9 + 1e-9 + 1e-10 * n
        tot = 0.0
        for s_, p in d.items():
            k = tuple(s_)
            tot += p
            if sum(k) != n:
                raise Violation(f"{backend}: lossless circuit, {n} photons in, pattern {k} out", key="photon-number")
            if not abs(p - ref.get(k, 0.0)) <= tol:
                raise Violation(f"{backend}: P{k} = {p:.10g} for input |{n0},{n1}>, exact {ref.get(k, 0.0):.10g}",
                                key="probability-mismatch")
        if not abs(tot - 1) <= tol:
            raise Violation(f"{backend}: distribution for |{n0},{n1}> sums to {tot:.10g}", key="not-normalised")
    labels = []
    if n >= 21:
        labels.append("photons>=21")
    if math.factorial(n0) * math.factorial(n1) >= 2 ** 63:
        labels.append("factorial-product>=2^63")
    return {"nontrivial": n >= 8, "labels": labels}


def reference(c, vin):
    from lightworks.sdk.utils import add_heralds_to_state  # only for nothing; not used
    U = c.U_full
    n = c.n_modes
    h = c.heralds["input"]
    full = []
    it = iter(vin)
    for m in range(n):
        full.append(h[m] if m in h else next(it))
    full += [0] * (U.shape[0] - n)
    ref = marginal_distribution(U, n, full)
    # one truncation allowance (1e-9) per photon pattern on the circuit's modes
    return ref, sum(full), len(ref)


def check_dist(name, dist, ref, injected, n_full, n_modes):
    tol = n_full * 1e-9 + 1e-9
    total = 0.0
    for s, p in dist.items():
        k = tuple(s)
        if len(k) != n_modes:
            raise Violation(f"{name}: pattern {k} has {len(k)} modes, circuit has {n_modes}",
                            key="pattern-length")
        if not p >= 0:
            raise Violation(f"{name}: negative/NaN probability {p} for {k}", key="negative-probability")
        if sum(k) > injected:
            raise Violation(f"{name}: pattern {k} holds more photons than the {injected} injected",
                            key="too-many-photons")
        total += p
        r = ref.get(k, 0.0)
        if not abs(p - r) <= tol:
            raise Violation(f"{name}: P{k} = {p:.12g}, exact marginal {r:.12g} (tol {tol:.2g})",
                            key="probability-mismatch")
    for k, r in ref.items():
        if r > tol and not any(tuple(s) == k for s in dist):
            raise Violation(f"{name}: pattern {k} with exact probability {r:.6g} missing", key="pattern-missing")
    if not abs(total - 1) <= tol:
        raise Violation(f"{name}: distribution sums to {total:.12g}", key="not-normalised")
    return total


def run_dist(case):
    import lightworks as lw
    from lightworks import emulator
    prog = case["prog"]
    c = call("build", build_real, prog)
    vin = list(case["input"])
    ref, injected, n_full = reference(c, vin)
    dists = {}
    # the backend is named by a string or handed over as a Backend object (alternating, a function of the case)
    as_object = (len(prog["ops"]) + sum(vin)) % 2 == 1
    for backend in ("permanent", "slos"):
        smp = emulator.Sampler(c, lw.State(list(vin)), backend=emulator.Backend(backend) if as_object else backend)
        d = call(f"probability_distribution[{backend}]", lambda s=smp: s.probability_distribution)
        check_dist(f"Sampler[{backend}]", d, ref, injected, n_full, c.n_modes)
        dists[backend] = {tuple(k): v for k, v in d.items()}
    tol = 2 * (n_full * 1e-9 + 1e-9)
    for k in set(dists["permanent"]) | set(dists["slos"]):
        a, b = dists["permanent"].get(k, 0.0), dists["slos"].get(k, 0.0)
        if not abs(a - b) <= tol:
            raise Violation(f"backends disagree on {k}: permanent {a:.12g} slos {b:.12g}",
                            key="backend-disagreement")
    s = gen.program_stats(prog)
    hp = sum(c.heralds["input"].values())
    labels = []
    if s["loss"]:
        labels.append("lossy")
    if hp:
        labels.append("herald-photons")
    vac = ref.get(tuple([0] * c.n_modes), 0.0)
    if s["loss"] and vac > 1e-3 and injected > 0:
        labels.append("vacuum-outcome>1e-3")
    if sum(vin) == 0:
        labels.append("vacuum-input")
    if any(x >= 2 for x in vin):
        labels.append("bunched-input")
    nt = (s["loss"] > 0 and injected >= 2) or hp > 0
    return {"nontrivial": nt, "labels": labels}


def run_backend_direct(case):
    """Backend.full_probability_distribution on the compiled circuit."""
    import lightworks as lw
    from lightworks import emulator
    prog = case["prog"]
    c = call("build", build_real, prog)
    n = c.n_modes
    # full input given directly over all circuit modes (no herald handling here)
    vin = list(case["input"])
    if len(vin) != n:
        vin = (vin + [0] * n)[:n]
    U = c.U_full
    full = vin + [0] * (U.shape[0] - n)
    ref = marginal_distribution(U, n, full)
    n_full = len(ref)
    built = c._build()
    out = {}
    for backend in ("permanent", "slos"):
        be = emulator.Backend(backend)
        d = call(f"full_probability_distribution[{backend}]", be.full_probability_distribution,
                 built, lw.State(list(vin)))
        tol = n_full * 1e-9 + 1e-9
        tot = 0.0
        for s_, p in d.items():
            k = tuple(s_)
            tot += p
            if not p >= 0 or not abs(p - ref.get(k, 0.0)) <= tol:
                raise Violation(f"Backend[{backend}] P{k} = {p:.12g}, exact {ref.get(k, 0.0):.12g}",
                                key="backend-probability-mismatch")
        for k, r in ref.items():
            if r > tol and not any(tuple(s_) == k for s_ in d):
                raise Violation(f"Backend[{backend}] pattern {k} (p={r:.6g}) missing", key="backend-missing")
    s = gen.program_stats(prog)
    return {"nontrivial": s["loss"] > 0 and sum(vin) >= 2, "labels": ["lossy"] if s["loss"] else []}


@st.composite
def backend_sequence_case(draw):
    """Two or three different circuits computed one after the other by the same Backend objects; the later ones are
    built to have the same total number of modes (circuit + loss) and the same photon number as the first, split
    differently between circuit modes and loss modes."""
    first = draw(gen.flat_program(min_n=1, max_n=4, max_ops=5))
    first, _ = gen.limit_loss(first, 3)
    n1, total, _ = first["n"], gen.dims(first)[0] + gen.dims(first)[1], None
    nph = draw(st.integers(1, 3))
    seq = [{"prog": first, "input": draw(gen.fock_state(n1, nph))}]
    for _ in range(draw(st.integers(1, 2))):
        n2 = draw(st.integers(1, min(total, 5)))
        p2 = draw(gen.flat_program(min_n=n2, max_n=n2, max_ops=4, lossy=False))
        for _ in range(total - n2):
            p2["ops"].insert(draw(st.integers(0, len(p2["ops"]))),
                             ["loss", draw(st.integers(0, n2 - 1)), draw(st.sampled_from([0.3, 0.5, 0.8, 0.0, 1.0]))])
        seq.append({"prog": p2, "input": draw(gen.fock_state(n2, nph))})
    return {"sequence": seq, "via": draw(st.sampled_from(["backend", "sampler"]))}


def run_backend_sequence(case):
    import lightworks as lw
    from lightworks import emulator
    backends = {b: emulator.Backend(b) for b in ("permanent", "slos")}
    # somebody else's Sampler, created without a source or detector and then degraded in place: the defaults of the
    # Samplers created below are their own
    c0 = call("build", build_real, case["sequence"][0]["prog"])
    other = emulator.Sampler(c0, lw.State(list(case["sequence"][0]["input"])))
    other.source.brightness = 0.5
    other.source.indistinguishability = 0.3
    other.detector.efficiency = 0.4
    sampler = {}
    labels = {"via-" + case["via"]}
    dims_seen = set()
    for step, item in enumerate(case["sequence"]):
        c = call("build", build_real, item["prog"])
        n = c.n_modes
        vin = list(item["input"])
        U = c.U_full
        ref = marginal_distribution(U, n, vin + [0] * (U.shape[0] - n))
        tol = len(ref) * 1e-9 + 1e-9
        if (U.shape[0], sum(vin)) in dims_seen:
            labels.add("same-total-modes-and-photons-as-an-earlier-circuit")
        dims_seen.add((U.shape[0], sum(vin)))
        for name, be in backends.items():
            if case["via"] == "backend":
                d = call(f"full_probability_distribution[{name}] (circuit {step + 1} on this Backend object)",
                         be.full_probability_distribution, c._build(), lw.State(vin))
            else:
                if name not in sampler:
                    sampler[name] = emulator.Sampler(c, lw.State(vin), backend=name)
                else:
                    sampler[name].circuit = c
                    sampler[name].input_state = lw.State(vin)
                d = call(f"Sampler[{name}].probability_distribution (circuit {step + 1} assigned to this Sampler)",
                         lambda s_=sampler[name]: dict(s_.probability_distribution))
            got = {}
            for s_, p in d.items():
                k = tuple(s_)
                if len(k) != n:
                    raise Violation(f"{name}, circuit {step + 1} of the sequence: pattern {list(k)} has {len(k)} modes, the "
                                    f"circuit has {n}", key="pattern-length")
                got[k] = got.get(k, 0.0) + p
            for k in set(got) | set(ref):
                if not abs(got.get(k, 0.0) - ref.get(k, 0.0)) <= tol:
                    raise Violation(f"{name}, circuit {step + 1} of the sequence computed by one {case['via']} object: "
                                    f"P{k} = {got.get(k, 0.0):.10g}, exact {ref.get(k, 0.0):.10g}",
                                    key="probability-mismatch-after-earlier-circuit")
    return {"nontrivial": "same-total-modes-and-photons-as-an-earlier-circuit" in labels, "labels": sorted(labels)}


def subs(tier):
    q = tier == "quick"
    return [
        Sub("sampler-distribution", run_dist, strategy=dist_case(big=not q), examples=70 if q else 600),
        Sub("bunched", run_dist, strategy=bunched_case(big=not q), examples=40 if q else 1500),
        Sub("cancelling-amplitudes", run_dist, strategy=cancelling_case(big=not q), examples=40 if q else 1500),
        Sub("routing-only", run_dist, strategy=routing_case(), examples=60 if q else 3000),
        Sub("edit-between-reads", run_reuse, strategy=reuse_case(), examples=50 if q else 600),
        Sub("many-photons-two-modes", run_two_mode, strategy=two_mode_case(big=not q), examples=25 if q else 400),
        Sub("many-loss-elements", run_many_loss, strategy=many_loss_case(), examples=5 if q else 100),
        Sub("backend-object-reused", run_backend_sequence, strategy=backend_sequence_case(), examples=30 if q else 600),
        Sub("backend-direct", run_backend_direct, strategy=dist_case(big=False), examples=30 if q else 400),
    ]
