"""C08 - operations never modify their arguments; failed calls change nothing."""
from hypothesis import strategies as st
from hypothesis.stateful import RuleBasedStateMachine, initialize, rule

from vlib import gen
from vlib.build import apply_real, build_real, snapshot, snapshot_diff
from vlib.harness import MachineSpec, RecordingMixin, Sub, Violation, unexpected

PROPERTY = "C08"
RULE = ("Rule-based state machine over a pool of up to 6 circuits and 4 states. Rules: build a circuit from a "
        "generated program, parent.add(child) at any legal or illegal position grouped or not, a + b, copy (plain / "
        "frozen), in-place edits of a pooled circuit (primitives, heralds, the three rewrites), use of a circuit "
        "by Simulator / Sampler / QuickSampler / Analyzer / Reck / Display / state and process tomography, qiskit "
        "conversion, and generated rejected calls. Invariant after every step: the observable snapshot (n_modes, "
        "input_modes, heralds, U_full, spec length, internal modes) of every pooled circuit that was not the "
        "receiver of a successful mutating call is unchanged, pooled states are unchanged, a call that raised left "
        "its receiver unchanged, and the qubit/tomography module-level gate tables are unchanged. Non-trivial = a "
        "history in which a circuit served as argument >= 2 times with a parent owning an ancilla, or a rejected "
        "call hit a non-empty circuit; distinct = distinct recorded history."
        " Also: calls with unusual argument forms made on a copy of a pooled circuit (whatever the library decides, a call that raises must leave the copy unchanged), and swap-heavy circuits from which a second circuit is derived (copy / + / add) before either is rewritten in place.")
ASSUMPTIONS = [
    "shared Parameter objects are not used in this machine (excepted by the property)",
    "State(list) keeping the caller's list is outside 'through the API' and not asserted",
]

small_prog = st.one_of(
    gen.program(min_n=1, max_n=4, depth=1, max_ops=4, max_herald_photons=1),
    gen.addition_tree(max_n=4, max_adds=2),
    gen.addition_tree(max_n=3, max_adds=2, lossy=False),
    gen.heralded_child(max_k=4, depth=1),
    gen.flat_program(min_n=1, max_n=4, max_ops=4),
)
IDX = st.integers(0, 30)


_TABLES0 = None


def user_modes(c):
    return c.n_modes - len(c._internal_modes)


class C08Machine(RecordingMixin, RuleBasedStateMachine):
    def __init__(self):
        super().__init__()
        self.init_recording()
        self.circs = []
        self.states = []
        self.arg_uses = {}
        self.tables0 = None

    # ------------------------------------------------------------ helpers
    def tables(self):
        from lightworks.qubit.converter import qiskit_convert as qc
        from lightworks.tomography import mappings as mp
        out = []
        for name, tab in (("SINGLE", getattr(qc, "SINGLE_QUBIT_GATES_MAP", {})),
                          ("TWO", getattr(qc, "TWO_QUBIT_GATES_MAP", {})),
                          ("THREE", getattr(qc, "THREE_QUBIT_GATES_MAP", {})),
                          ("MEAS", mp.MEASUREMENT_MAPPING)):
            for k in sorted(tab):
                v = tab[k]
                if hasattr(v, "U_full") and not isinstance(v, type):
                    out.append((name, k, snapshot(v)))
        for k in sorted(mp.INPUT_MAPPING):
            s_, c_ = mp.INPUT_MAPPING[k]
            out.append(("IN", k, tuple(s_.s), snapshot(c_)))
        return out

    def guarded(self, what, fn, receiver=None, may_raise=()):
        """Run fn; nobody except a successfully mutated receiver may change."""
        global _TABLES0
        if _TABLES0 is None:
            _TABLES0 = self.tables()      # once per process: corruption must not become the baseline
        self.tables0 = _TABLES0
        before = [snapshot(c) for c in self.circs]
        sbefore = [tuple(s.s) for s in self.states]
        raised = None
        result = None
        try:
            result = fn()
        except may_raise as e:
            raised = e
        except Violation:
            raise
        except Exception as e:  # noqa: BLE001
            raise unexpected(e, what) from e
        for i, (b, c) in enumerate(zip(before, self.circs)):
            a = snapshot(c)
            if a == b:
                continue
            if i == receiver and raised is None:
                continue
            if i == receiver:
                raise Violation(f"{what} raised {type(raised).__name__} but changed its circuit "
                                f"({snapshot_diff(b, a)})", key="failed-call-changed-circuit")
            raise Violation(f"{what}: circuit #{i}, only an argument/bystander, changed "
                            f"({snapshot_diff(b, a)})", key="argument-modified")
        for i, (b, s) in enumerate(zip(sbefore, self.states)):
            if tuple(s.s) != b:
                raise Violation(f"{what}: state #{i} changed from {b} to {s.s}", key="state-modified")
        if self.tables() != self.tables0:
            raise Violation(f"{what}: a module-level gate/measurement table changed", key="module-table-modified")
        return result, raised

    def pick(self, i):
        return i % len(self.circs)

    # -------------------------------------------------------------- steps
    def do_new(self, prog):
        c = self.guarded("build", lambda: build_real(prog))[0]
        if len(self.circs) < 6:
            self.circs.append(c)
        else:
            self.circs[len(prog["ops"]) % 6] = c

    def do_new_gate(self, gate):
        name = gate
        """A circuit from the qubit library: its whole content is one (heralded) group."""
        from lightworks import qubit
        kw = {"target_qubit": 0} if name in ("CNOT", "CNOT_Heralded") else {}
        c = self.guarded(f"qubit.{name}()", lambda: getattr(qubit, name)(**kw))[0]
        if len(self.circs) < 6:
            self.circs.append(c)
        else:
            self.circs[len(name) % 6] = c
        self.info_labels.add("single-group-circuit")

    def do_trim(self, k):
        del self.circs[:k]
        self.arg_uses = {}

    def do_state(self, occ):
        import lightworks as lw
        if len(self.states) < 4:
            self.states.append(lw.State(list(occ)))

    def do_add(self, parent, child, pos, group):
        from lightworks.sdk.utils import ModeRangeError
        p, ch = self.pick(parent), self.pick(child)
        if p == ch:
            return
        P, C = self.circs[p], self.circs[ch]
        if C.input_modes == 0 or user_modes(P) == 0:
            return          # degenerate: nothing to connect
        room = user_modes(P) - C.input_modes
        had_anc = bool(P._internal_modes)
        if room >= 0:
            m = pos % (room + 1)
            self.guarded(f"circuit#{p}.add(circuit#{ch}, {m}, group={group})",
                         lambda: P.add(C, m, group=group), receiver=p)
            self.arg_uses[ch] = self.arg_uses.get(ch, 0) + 1
            if had_anc:
                self.info_labels.add("add-onto-parent-with-ancilla")
                if self.arg_uses[ch] >= 2:
                    self.nontrivial = True
            if not group and not C.heralds["input"] and had_anc:
                self.info_labels.add("ungrouped-add-spanning-ancilla-candidate")
        else:
            m = pos % (user_modes(P) + 1)
            _, raised = self.guarded(f"oversize circuit#{p}.add(circuit#{ch}, {m})",
                                     lambda: P.add(C, m, group=group), receiver=p,
                                     may_raise=(ModeRangeError,))
            if raised is None:
                raise Violation("oversize addition accepted", key="accepted-invalid:oversize-add")
            self.info_labels.add("rejected-oversize-add")
            if P._get_circuit_spec():
                self.nontrivial = True

    def do_plus(self, a, b):
        from lightworks.sdk.utils import ModeRangeError
        A, B = self.circs[self.pick(a)], self.circs[self.pick(b)]
        res, raised = self.guarded("a + b", lambda: A + B,
                                   may_raise=(ModeRangeError, NotImplementedError))
        if raised is None and len(self.circs) < 6:
            self.circs.append(res)

    def do_iadd(self, a, b):
        """total = A; total += B  - the augmented form of a sum rebinds the name; the circuit A itself (still referenced
        by the pool, by parents it was added to, by the user) is an operand like in A + B"""
        from lightworks.sdk.utils import ModeRangeError
        A, B = self.circs[self.pick(a)], self.circs[self.pick(b)]

        def run():
            total = A
            total += B
            return total
        res, raised = self.guarded("total = a; total += b", run, may_raise=(ModeRangeError, NotImplementedError,
                                                                            TypeError))
        if raised is None and res is not None and len(self.circs) < 6 and res is not A:
            self.circs.append(res)
        self.info_labels.add("augmented-sum")

    def do_copy(self, i, freeze):
        c = self.circs[self.pick(i)]
        res, _ = self.guarded("copy", lambda: c.copy(freeze_parameters=freeze))
        if len(self.circs) < 6:
            self.circs.append(res)

    def do_edit(self, i, op):
        k = self.pick(i)
        c = self.circs[k]
        um = user_modes(c)
        if um < 1:
            return
        op = remap_op(op, um)
        if op is None:
            return
        self.guarded(f"edit circuit#{k} {op[0]}", lambda: apply_real(c, op), receiver=k)
        self.info_labels.add("edit-after-use")

    def do_herald(self, i, n, a, b):
        k = self.pick(i)
        c = self.circs[k]
        um = user_modes(c)
        if um < 1:
            return
        _, raised = self.guarded(f"circuit#{k}.herald({n}, {a % um}, {b % um})",
                                 lambda: c.herald(n, a % um, b % um), receiver=k, may_raise=(ValueError,))
        if raised is not None:
            self.info_labels.add("rejected-duplicate-herald")
            if c._get_circuit_spec() or c.heralds["input"]:
                self.nontrivial = True

    def do_scribble(self, i):
        """The caller overwrites, in place, every value an accessor of the circuit (and of the pooled states) handed
        out; none of them may be the object's own storage."""
        k = self.pick(i)
        c = self.circs[k]

        def scribble():
            h = c.heralds
            for side in ("input", "output"):
                h[side][len(h[side]) + 97] = 3
                for m in list(h[side])[:1]:
                    h[side][m] += 1
            for arr in (c.U_full, c.U):
                try:
                    arr[...] = 0
                except (ValueError, TypeError):
                    pass
            for s in self.states:
                v = s.s
                if v:
                    v[0] += 1
                v.append(9)
        self.guarded(f"overwrite what the accessors of circuit#{k} / the states returned", scribble)
        self.info_labels.add("accessor-results-overwritten")

    def do_rewrite(self, i, which):
        k = self.pick(i)
        c = self.circs[k]
        fn = {"unpack": c.unpack_groups, "compress": c.compress_mode_swaps,
              "nonadj": c.remove_non_adjacent_bs}[which]
        self.guarded(f"circuit#{k}.{which}", fn, receiver=k)

    def do_use(self, i, how, photons, seed):
        import lightworks as lw
        from lightworks import emulator
        k = self.pick(i)
        c = self.circs[k]
        nv = c.input_modes
        occ = [0] * nv
        for j in range(min(photons, 2)):
            if nv:
                occ[(seed + j) % nv] += 1
        state = lw.State(occ)
        self.states.append(state) if len(self.states) < 4 else None
        hp = sum(c.heralds["input"].values())
        nloss = c.U_full.shape[0] - c.n_modes
        if hp + sum(occ) > 4 or c.n_modes + nloss > 12:
            return
        self.arg_uses[k] = self.arg_uses.get(k, 0) + 1

        def simulate():
            emulator.Simulator(c).simulate(state)

        def sampler():
            s = emulator.Sampler(c, state)
            s.probability_distribution  # noqa: B018
            s.sample_N_inputs(20, seed=seed)
            s.sample()

        def quick():
            try:
                q = emulator.QuickSampler(c, state)
                q.probability_distribution  # noqa: B018
                q.sample_N_outputs(10, seed=seed)
            except (ValueError, emulator.EmulatorError):
                pass

        def analyzer():
            emulator.Analyzer(c).analyze(state)

        def reck():
            if nloss == 0:
                from lightworks import interferometers
                interferometers.Reck().map(c, seed=seed)

        def display_svg():
            lw.Display(c, display_type="svg", display_loss=bool(seed % 2))

        def display_mpl():
            import matplotlib.pyplot as plt
            lw.Display(c, display_type="mpl")
            plt.close("all")

        def state_tomo():
            from lightworks import tomography
            if nv in (2, 4):
                nq = nv // 2
                fake = {lw.State([1, 0] * nq): 7, lw.State([0, 1] * nq): 3}
                tomography.StateTomography(nq, c, lambda circuits: [dict(fake) for _ in circuits]).process()

        def process_tomo():
            from lightworks import tomography
            if nv == 2:
                fake = {lw.State([1, 0]): 7, lw.State([0, 1]): 3}
                tomography.LIProcessTomography(1, c, lambda circuits, inputs: [dict(fake) for _ in circuits]).process()

        fn = {"simulate": simulate, "sampler": sampler, "quick": quick, "analyzer": analyzer, "reck": reck,
              "display_svg": display_svg, "display_mpl": display_mpl, "state_tomo": state_tomo,
              "process_tomo": process_tomo}[how]
        self.guarded(f"{how}(circuit#{k})", fn)
        self.info_labels.add("use:" + how)

    def do_qiskit(self, gates):
        from qiskit import QuantumCircuit
        from lightworks.qubit import qiskit_converter
        qc = QuantumCircuit(2)
        for g in gates:
            if g == "cx":
                qc.cx(0, 1)
            elif g == "cz":
                qc.cz(1, 0)
            else:
                getattr(qc, g)(0 if len(g) % 2 else 1)
        self.guarded("qiskit_converter", lambda: qiskit_converter(qc, allow_post_selection=True))
        self.info_labels.add("use:qiskit")

    def do_reject(self, i, kind, a, b):
        import lightworks as lw
        from lightworks.sdk.utils import ModeRangeError
        k = self.pick(i)
        c = self.circs[k]
        um = user_modes(c)
        excs = (ModeRangeError, ValueError, TypeError)
        calls = {
            "bs-mode-high": lambda: c.bs(a % (um + 1), um + b % 3),
            "bs-mode-negative": lambda: c.bs(-1 - a % 3, b % max(um, 1)),
            "bs-same-mode": lambda: c.bs(a % max(um, 1), a % max(um, 1)),
            "bs-reflectivity": lambda: c.bs(0, 1 % max(um, 1) if um > 1 else um, reflectivity=1.5 + a),
            "bs-loss": lambda: c.bs(0, 1, loss=-0.5 - a) if um > 1 else c.loss(0, -0.5),
            "bs-loss-after-append": lambda: c.bs(a % max(um, 1), (a + 1) % max(um, 1) if um > 1 else um,
                                                  loss=1.5),
            "bs-convention": lambda: c.bs(0, 1 if um > 1 else um, convention="Ry"),
            "ps-mode": lambda: c.ps(um + a % 2, 0.3),
            "ps-loss": lambda: c.ps(a % max(um, 1), 0.3, loss=2),
            "loss-value": lambda: c.loss(a % max(um, 1), 1.0001 + b),
            "swaps-incomplete": lambda: c.mode_swaps({0: 1}) if um > 1 else c.mode_swaps({0: um}),
            "swaps-out-of-range": lambda: c.mode_swaps({0: um, um: 0}),
            "barrier-out-of-range": lambda: c.barrier([0, um + a % 2]),
            "herald-mode": lambda: c.herald(1, um + a % 2),
            "herald-float": lambda: c.herald(0.5, 0),
            "add-not-circuit": lambda: c.add([1, 2, 3], 0),
            "add-mode-high": lambda: c.add(lw.Circuit(1), um + a % 2),
            "add-too-big": lambda: c.add(lw.Circuit(um + 1 + a % 2), 0),
            "unitary-not-unitary": lambda: c.add(lw.Unitary(__import__("numpy").ones((2, 2))), 0),
        }
        _, raised = self.guarded(f"rejected {kind} on circuit#{k}", calls[kind], receiver=k, may_raise=excs)
        if raised is None:
            raise Violation(f"invalid call {kind} was accepted", key="accepted-invalid:" + kind)
        self.info_labels.add("reject:" + kind)
        if c._get_circuit_spec():
            self.nontrivial = True

    def do_derive_rewrite(self, prog, how, which, first):
        """A circuit rich in mode swaps; a second circuit is derived from it (copy / sum with an empty circuit / added
        ungrouped to an empty parent); then one of the two is rewritten in place, then the other. Components may be
        shared between them behind the scenes - whoever is rewritten, the other one must stay what it was."""
        import lightworks as lw
        if len(self.circs) > 4:
            del self.circs[:2]
            self.arg_uses = {}
        c = self.guarded("build", lambda: build_real(prog))[0]
        self.circs.append(c)
        k = len(self.circs) - 1
        n = c.n_modes
        if how == "copy":
            d = self.guarded("copy", lambda: c.copy())[0]
        elif how == "plus-right":
            d = self.guarded("c + Circuit(n)", lambda: c + lw.Circuit(n))[0]
        elif how == "plus-left":
            d = self.guarded("Circuit(n) + c", lambda: lw.Circuit(n) + c)[0]
        else:
            d = lw.Circuit(n + 1)
            self.guarded("parent.add(c, 1)", lambda: d.add(c, 1, group=(how == "add-grouped")))
        self.circs.append(d)
        order = [k + 1, k] if first else [k, k + 1]
        for idx in order:
            self.do_rewrite(idx, which)
        self.info_labels.add(f"derive:{how}+{which}")
        self.nontrivial = True

    def do_maybe(self, i, j, kind, a, b):
        """Calls whose arguments are unusual but which the library may accept or refuse as it sees fit. They are made
        on a copy of a pooled circuit; whichever way it goes, nobody else may change, and if the call raises - any
        exception - the copy must be exactly what it was before ("a construction call that raises leaves the circuit
        exactly as it was before")."""
        import numpy as _np
        import lightworks as lw
        k = self.pick(i)
        c = self.guarded("copy", lambda: self.circs[k].copy())[0]
        um = user_modes(c)
        if um < 1:
            return
        child = self.circs[self.pick(j)]
        odd_names = ["", "  ", 7, 2.5, ["x"], None, ("a", "b"), b"raw", "x" * 300]
        odd_modes = [_np.int64(a % um), float(a % um), str(a % um), None, [a % um], _np.float64(a % um) + 0.5, True,
                     -1 - a % 3, um + b % 2]
        fits = child.input_modes <= um and child.input_modes > 0
        calls = {
            "add-odd-name": (lambda: c.add(child, b % (um - child.input_modes + 1), group=True,
                                           name=odd_names[a % len(odd_names)])) if fits else None,
            "add-odd-name-ungrouped": (lambda: c.add(child, b % (um - child.input_modes + 1), group=False,
                                                     name=odd_names[a % len(odd_names)])) if fits else None,
            "add-odd-mode": (lambda: c.add(child, odd_modes[a % len(odd_modes)], group=bool(b % 2))) if fits else None,
            "add-odd-group-flag": (lambda: c.add(child, 0, group=["yes", None, 2, 0.0][a % 4])) if fits else None,
            "herald-odd-mode": lambda: c.herald(b % 2, odd_modes[a % len(odd_modes)]),
            "herald-odd-output": lambda: c.herald(b % 2, a % um, odd_modes[b % len(odd_modes)]),
            "herald-odd-photons": lambda: c.herald([-1, 1.0, "1", None, _np.int64(1), 2 ** 40][a % 6], b % um),
            "bs-odd-mode": lambda: c.bs(odd_modes[a % len(odd_modes)], loss=[0, 0.2][b % 2]),
            "bs-odd-mode-2": lambda: c.bs(a % um, odd_modes[b % len(odd_modes)], loss=[0, 0.2][a % 2]),
            "bs-odd-value": lambda: c.bs(0, reflectivity=[None, "0.5", 1 + 1e-12, -1e-12, [0.5], 0.5j][a % 6],
                                         loss=[0, 0.1][b % 2]),
            "bs-odd-loss": lambda: c.bs(0, loss=[None, "0.1", 1 + 1e-12, -1e-12, [0.1], float("nan")][a % 6]),
            "ps-odd-mode": lambda: c.ps(odd_modes[a % len(odd_modes)], 0.3, loss=[0, 0.2][b % 2]),
            "ps-odd-phase": lambda: c.ps(a % um, [None, "pi", [0.3], {"phi": 1}][b % 4]),
            "ps-odd-loss": lambda: c.ps(a % um, 0.3, loss=[None, "0.1", 1 + 1e-12, -1e-12, [0.1]][b % 5]),
            "loss-odd-mode": lambda: c.loss(odd_modes[a % len(odd_modes)], 0.3),
            "loss-odd-value": lambda: c.loss(a % um, [None, "0.1", 1 + 1e-12, -1e-12, [0.1], True][b % 6]),
            "barrier-odd": lambda: c.barrier([[a % um, a % um], [a % um, None], [float(a % um)], "01", (0,), [-1],
                                              [um]][b % 7]),
            "swaps-odd": lambda: c.mode_swaps([{0: 0.0}, {0: 1, 1: 0, 2: 2.5}, {"0": "1", "1": "0"}, [(0, 1), (1, 0)],
                                               {0: 1, 1: 1}, {0: um, um: 0}, {-1: 0, 0: -1}][a % 7]),
            "unitary-odd": lambda: c.add(lw.Unitary(_np.eye(2), label=[7, None, ["u"], ""][a % 4]), b % um),
        }
        fn = calls[kind]
        if fn is None:
            return
        before = snapshot(c)
        what = f"{kind}(a={a}, b={b}) on a copy of circuit#{k}"

        def attempt():
            try:
                fn()
            except Violation:
                raise
            except Exception as e:  # noqa: BLE001
                return e
            return None
        raised, _ = self.guarded(what, attempt)
        if raised is not None:
            try:
                after = snapshot(c)
            except Exception as e2:  # noqa: BLE001
                raise Violation(f"{what} raised {type(raised).__name__} and left a circuit that no longer compiles "
                                f"({type(e2).__name__}: {e2})", key="failed-call-changed-circuit") from e2
            if after != before:
                raise Violation(f"{what} raised {type(raised).__name__}: {raised} - but changed its circuit "
                                f"({snapshot_diff(before, after)})", key="failed-call-changed-circuit")
            self.info_labels.add("maybe:" + kind + ":raised")
            if c._get_circuit_spec():
                self.nontrivial = True
        else:
            self.info_labels.add("maybe:" + kind + ":accepted")

    # --------------------------------------------------------------- rules
    @initialize(prog=small_prog)
    def first(self, prog):
        self.step("new", prog=prog)

    @rule(prog=small_prog)
    def r_new(self, prog):
        self.step("new", prog=prog)

    @rule(parent=IDX, child=IDX, pos=st.integers(0, 8), group=st.booleans())
    def r_add(self, parent, child, pos, group):
        self.step("add", parent=parent, child=child, pos=pos, group=group)

    @rule(a=IDX, b=IDX)
    def r_plus(self, a, b):
        self.step("plus", a=a, b=b)

    @rule(a=IDX, b=IDX)
    def r_iadd(self, a, b):
        self.step("iadd", a=a, b=b)

    @rule(i=IDX, freeze=st.booleans())
    def r_copy(self, i, freeze):
        self.step("copy", i=i, freeze=freeze)

    @rule(i=IDX, op=gen.primitive(6, True))
    def r_edit(self, i, op):
        self.step("edit", i=i, op=op)

    @rule(i=IDX, n=st.integers(0, 1), a=st.integers(0, 5), b=st.integers(0, 5))
    def r_herald(self, i, n, a, b):
        self.step("herald", i=i, n=n, a=a, b=b)

    @rule(name=st.sampled_from(["CZ", "CNOT", "CZ_Heralded", "CNOT_Heralded"]), op=gen.primitive(4, True))
    def r_gate_copy_unpack_edit(self, name, op):
        """single-group circuit -> copy -> the copy is unpacked and edited: the original is a bystander"""
        self.step("new_gate", gate=name)
        k = len(self.circs) - 1 if len(self.circs) <= 6 else len(name) % 6
        k = min(k, len(self.circs) - 1)
        for j, c in enumerate(self.circs):
            if c._get_circuit_spec() and len(c._get_circuit_spec()) == 1 and c.input_modes == 4:
                k = j
        self.step("copy", i=k, freeze=False)
        j = len(self.circs) - 1
        self.step("rewrite", i=j, which="unpack")
        self.step("edit", i=j, op=op)

    @rule(prog=gen.flat_program(min_n=2, max_n=4, max_ops=3, lossy=False), n=st.integers(2, 4), op=gen.primitive(4, True))
    def r_group_copy_unpack_edit(self, prog, n, op):
        """a circuit holding exactly one group (sub-circuit added with group=True) -> copy -> unpack + edit the copy"""
        wrapped = {"n": max(n, prog["n"]), "ops": [["add", prog, 0, True, "g"]]}
        self.step("new", prog=wrapped)
        self.step("copy", i=len(self.circs) - 1, freeze=False)
        j = len(self.circs) - 1
        self.step("rewrite", i=j, which="unpack")
        self.step("edit", i=j, op=op)

    @rule(prog=gen.flat_program(min_n=2, max_n=3, max_ops=3, lossy=False), child=gen.heralded_child(max_k=3, depth=0),
          pos=st.integers(0, 4), pos2=st.integers(0, 4), group=st.booleans())
    def r_group_copy_add_heralded(self, prog, child, pos, pos2, group):
        """a circuit holding a group -> copy -> a heralded sub-circuit is added to the copy (its ancilla is inserted
        below / inside / above the group): the original and the heralded argument are bystanders"""
        n = prog["n"] + 1
        wrapped = {"n": n, "ops": [["add", prog, pos % 2, True, "g"]]}
        if len(self.circs) > 3:
            self.step("trim", k=2)      # keep room in the pool for the three circuits of this scenario
        self.step("new", prog=wrapped)
        a = len(self.circs) - 1
        self.step("copy", i=a, freeze=False)
        b = len(self.circs) - 1
        self.step("new", prog=child)
        c = len(self.circs) - 1
        if len({a, b, c}) == 3:
            self.step("add", parent=b, child=c, pos=pos2, group=group)
            self.step("add", parent=b, child=a, pos=pos, group=False)

    @rule(i=IDX)
    def r_scribble(self, i):
        self.step("scribble", i=i)

    @rule(i=IDX, which=st.sampled_from(["unpack", "compress", "nonadj"]))
    def r_rewrite(self, i, which):
        self.step("rewrite", i=i, which=which)

    @rule(i=IDX, how=st.sampled_from(["simulate", "sampler", "quick", "analyzer", "reck", "display_svg",
                                      "display_mpl", "state_tomo", "process_tomo"]),
          photons=st.integers(0, 2), seed=st.integers(0, 1000))
    def r_use(self, i, how, photons, seed):
        self.step("use", i=i, how=how, photons=photons, seed=seed)

    @rule(gates=st.lists(st.sampled_from(["h", "x", "s", "t", "cx", "cz", "sdg", "y"]), min_size=1, max_size=4))
    def r_qiskit(self, gates):
        self.step("qiskit", gates=gates)

    @rule(i=IDX, kind=st.sampled_from([
        "bs-mode-high", "bs-mode-negative", "bs-same-mode", "bs-reflectivity", "bs-loss",
        "bs-loss-after-append", "bs-convention", "ps-mode", "ps-loss", "loss-value",
        "swaps-incomplete", "swaps-out-of-range", "barrier-out-of-range", "herald-mode", "herald-float",
        "add-not-circuit", "add-mode-high", "add-too-big", "unitary-not-unitary"]),
        a=st.integers(0, 5), b=st.integers(0, 5))
    def r_reject(self, i, kind, a, b):
        self.step("reject", i=i, kind=kind, a=a, b=b)

    @rule(prog=gen.swap_heavy_program(min_n=3, max_n=4, max_ops=6),
          how=st.sampled_from(["copy", "copy", "plus-right", "plus-left", "add-ungrouped", "add-grouped"]),
          which=st.sampled_from(["compress", "compress", "unpack", "nonadj"]), first=st.booleans())
    def r_derive_rewrite(self, prog, how, which, first):
        self.step("derive_rewrite", prog=prog, how=how, which=which, first=first)

    @rule(i=IDX, j=IDX, kind=st.sampled_from([
        "add-odd-name", "add-odd-name-ungrouped", "add-odd-mode", "add-odd-group-flag", "herald-odd-mode",
        "herald-odd-output", "herald-odd-photons", "bs-odd-mode", "bs-odd-mode-2", "bs-odd-value", "bs-odd-loss",
        "ps-odd-mode", "ps-odd-phase", "ps-odd-loss", "loss-odd-mode", "loss-odd-value", "barrier-odd", "swaps-odd",
        "unitary-odd"]), a=st.integers(0, 11), b=st.integers(0, 11))
    def r_maybe(self, i, j, kind, a, b):
        self.step("maybe", i=i, j=j, kind=kind, a=a, b=b)

    def teardown(self):
        import matplotlib.pyplot as plt
        plt.close("all")
        self.finish()


def remap_op(op, um):
    """Fold a primitive op generated for 6 modes onto `um` user modes."""
    op = list(op)
    k = op[0]
    if k == "bs":
        if um < 2:
            return None
        m1 = op[1] % um
        m2 = None if op[2] is None else op[2] % um
        if m2 is None and m1 == um - 1:
            m1 = um - 2
        if m2 is not None and m2 == m1:
            m2 = (m1 + 1) % um
        op[1], op[2] = m1, m2
    elif k in ("ps", "loss"):
        op[1] = op[1] % um
    elif k == "barrier":
        if op[1] is not None:
            op[1] = sorted({m % um for m in op[1]})
    elif k == "swaps":
        keys = sorted({a % um for a, _ in op[1]})
        vals = keys[1:] + keys[:1]
        op[1] = [[a, b] for a, b in zip(keys, vals)]
    elif k == "unitary":
        m = op[1] % um
        op[1] = m
        op[3] = max(1, min(op[3], um - m))
    return op


def subs(tier):
    q = tier == "quick"
    return [Sub("histories", None, machine=MachineSpec(C08Machine), examples=40 if q else 1200,
                steps=25 if q else 40)]
