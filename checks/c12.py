"""C12 - qiskit conversion preserves the circuit's unitary, or refuses."""
import math

import numpy as np
from hypothesis import strategies as st

from vlib.harness import Sub, Violation, call_with_timeout
from vlib.refmodel import fock, real_heralded_amp

PROPERTY = "C12"
RULE = ("qiskit circuits on 2-4 qubits, 1-7 gates drawn from h,x,y,z,s,sdg,t,tdg,sx,rx,ry,rz,p (angles incl. 0, +-pi, "
        "large), cx,cz,swap on any ordered qubit pair, ccx,ccz on any ordered qubit triple, both values of "
        "allow_post_selection; a second generator forces a three-qubit gate followed by two-qubit gates on its "
        "qubits and swaps between entangling gates. Oracle: for every dual-rail basis input, all outputs with "
        "heralds satisfied and the returned rules satisfied are computed with own permanent from the real U_full; "
        "outputs outside the qubit subspace must vanish and the rest must equal one common scalar k != 0 times "
        "qiskit's Operator (little-endian), with |k|^2 = (1/9)^a (1/16)^b (1/72)^c. A refusal must be a ValueError "
        "in a class where refusal is legitimate. Non-trivial = >= 1 multi-qubit gate and >= 1 non-diagonal "
        "single-qubit gate; distinct = case JSON."
        " Also: 5-6 qubit circuits with post-selection allowed, random and layered (brickwork) arrangements of entangling gates around one three-qubit gate, up to 10 photons, a generated subset of basis inputs when more than 8.")
ASSUMPTIONS = [
    "qiskit.quantum_info.Operator is the reference for the target unitary",
    "refusal is accepted for: three-qubit gate with allow_post_selection=False; three-qubit gate on "
    "non-adjacent qubits; three-qubit gate at least two of whose qubits are used by later multi-qubit gates",
    "photon budget: at most 3 heralded two-qubit gates per circuit (permanents <= 10x10)",
]
TOL = 1e-8
ONE_Q = ["h", "x", "y", "z", "s", "sdg", "t", "tdg", "sx"]
ROT = ["rx", "ry", "rz", "p"]
angle = st.one_of(st.sampled_from([0.0, math.pi, -math.pi, math.pi / 2, 2 * math.pi, 7.5, -13.0]),
                  st.floats(-4 * math.pi, 4 * math.pi, allow_nan=False))


@st.composite
def registers(draw, nq):
    """None (one register) or a split of the qubits into 2-3 registers (qiskit circuits are often built so)."""
    if nq < 2 or draw(st.integers(0, 2)) > 0:
        return None
    cut = sorted(draw(st.lists(st.integers(1, nq - 1), unique=True, min_size=1, max_size=min(2, nq - 1))))
    return [b - a for a, b in zip([0, *cut], [*cut, nq])]


@st.composite
def qc_case(draw, forced=False):
    nq = draw(st.sampled_from([2, 3, 3, 3, 4]))
    aps = draw(st.booleans()) or forced
    max2 = 3 if (not aps or nq < 4) else 2
    if nq == 4:
        max2 = 2
    if forced and aps:
        max2 = 3
    gates = []
    n2 = 0
    n_gates = draw(st.integers(1, 7))
    plan = []
    if forced and nq >= 3:
        plan = draw(st.sampled_from([["3q", "2q"], ["3q", "2q", "2q"], ["2q", "swap", "2q"], ["1q", "3q", "1q", "2q"],
                                     ["2q", "3q"], ["3q", "swap", "2q"], ["2q", "2q", "swap", "2q"],
                                     ["swap", "swap", "2q", "2q"], ["2q", "2q", "2q"]]))
        # gates that happen to be the identity (rotations by exactly zero) in front of the entangling part
        plan = ["rot0"] * draw(st.sampled_from([0, 0, 1, 1, 2])) + plan
    for i in range(max(n_gates, len(plan))):
        kind = plan[i] if i < len(plan) else draw(st.sampled_from(["1q", "1q", "rot", "2q", "2q", "swap", "3q"]))
        if kind == "1q":
            gates.append([draw(st.sampled_from(ONE_Q)), [draw(st.integers(0, nq - 1))], []])
        elif kind == "rot":
            gates.append([draw(st.sampled_from(ROT)), [draw(st.integers(0, nq - 1))], [draw(angle)]])
        elif kind == "rot0":
            gates.append([draw(st.sampled_from(ROT)), [draw(st.integers(0, nq - 1))], [draw(st.sampled_from([0.0, 0, -0.0]))]])
        elif kind == "2q" and n2 < max2:
            a = draw(st.integers(0, nq - 1))
            b = (a + draw(st.integers(1, nq - 1))) % nq
            gates.append([draw(st.sampled_from(["cx", "cz"])), [a, b], []])
            n2 += 1
        elif kind == "swap":
            a = draw(st.integers(0, nq - 1))
            b = (a + draw(st.integers(1, nq - 1))) % nq
            gates.append(["swap", [a, b], []])
        elif kind == "3q" and nq >= 3:
            qs = draw(st.permutations(range(nq)))[:3]
            if draw(st.integers(0, 3)) > 0:
                base = draw(st.integers(0, nq - 3))
                qs = [base + x for x in draw(st.permutations([0, 1, 2]))]
            gates.append([draw(st.sampled_from(["ccx", "ccz"])), list(qs), []])
        else:
            gates.append([draw(st.sampled_from(ONE_Q)), [draw(st.integers(0, nq - 1))], []])
    return {"nq": nq, "gates": gates, "aps": aps, "regs": draw(registers(nq))}


@st.composite
def far_case(draw):
    """one entangling gate between qubits 3 or 4 apart on a 5-qubit register (routing swaps on both sides)"""
    nq = 5
    a = draw(st.integers(0, 1))
    b = a + draw(st.integers(3, 4 - a))
    if draw(st.booleans()):
        a, b = b, a
    gates = []
    for _ in range(draw(st.integers(0, 3))):
        gates.append([draw(st.sampled_from(ONE_Q)), [draw(st.integers(0, nq - 1))], []])
    gates.append([draw(st.sampled_from(["cx", "cz"])), [a, b], []])
    for _ in range(draw(st.integers(0, 2))):
        gates.append([draw(st.sampled_from(ROT)), [draw(st.integers(0, nq - 1))], [draw(angle)]])
    return {"nq": nq, "gates": gates, "aps": draw(st.booleans()), "regs": draw(registers(nq))}


@st.composite
def wide_case(draw):
    """5-6 qubits, post-selection allowed, mostly entangling gates: several two-qubit gates on different parts of the
    register around one three-qubit gate, so that the analysis of which gates may be post-selected has several
    independent groups of qubits to keep apart and to join."""
    nq = draw(st.sampled_from([5, 6]))
    gates = []
    n_multi = draw(st.integers(3, 6))
    at3 = draw(st.integers(0, n_multi - 1)) if draw(st.integers(0, 3)) > 0 else -1
    for i in range(n_multi):
        if draw(st.booleans()):
            gates.append([draw(st.sampled_from(ONE_Q + ROT[:0])), [draw(st.integers(0, nq - 1))], []])
        if i == at3:
            base = draw(st.integers(0, nq - 3))
            gates.append([draw(st.sampled_from(["ccx", "ccz"])), [base + x for x in draw(st.permutations([0, 1, 2]))],
                          []])
        else:
            a = draw(st.integers(0, nq - 1))
            b = (a + draw(st.sampled_from([1, 1, 1, 2, nq - 1]))) % nq
            gates.append([draw(st.sampled_from(["cx", "cz"])), [a, b], []])
    return {"nq": nq, "gates": gates, "aps": True, "regs": None, "max_photons": 10,
            "cols": draw(st.lists(st.integers(0, 2 ** nq - 1), min_size=8, max_size=8, unique=True))}


@st.composite
def brickwork_case(draw):
    """5-6 qubits, post-selection allowed, gates arranged in layers as quantum circuits usually are: a layer is a set of
    two-qubit gates on disjoint pairs (a random matching of a random subset of the register), optionally with one
    three-qubit gate on an adjacent triple beside them; single-qubit gates in between."""
    nq = draw(st.sampled_from([5, 6, 6, 6]))
    gates = []
    n_layers = draw(st.integers(2, 4))
    at3 = draw(st.integers(0, n_layers - 1)) if draw(st.integers(0, 4)) > 0 else -1
    for layer in range(n_layers):
        free = list(range(nq))
        if layer == at3:
            base = draw(st.integers(0, nq - 3))
            tri = [base, base + 1, base + 2]
            gates.append([draw(st.sampled_from(["ccx", "ccz"])), list(draw(st.permutations(tri))), []])
            free = [q for q in free if q not in tri]
            if draw(st.booleans()):
                free = []
        free = list(draw(st.permutations(free)))
        n_pairs = draw(st.integers(0 if layer == at3 else 1, len(free) // 2)) if len(free) >= 2 else 0
        if at3 >= 0 and layer == at3 + 1 and draw(st.booleans()):
            n_pairs = len(free) // 2            # a full layer right behind the three-qubit gate
        for i in range(n_pairs):
            gates.append([draw(st.sampled_from(["cx", "cz"])), [free[2 * i], free[2 * i + 1]], []])
        for _ in range(draw(st.integers(0, 2))):
            gates.append([draw(st.sampled_from(ONE_Q)), [draw(st.integers(0, nq - 1))], []])
    return {"nq": nq, "gates": gates, "aps": True, "regs": None, "max_photons": 10,
            "cols": draw(st.lists(st.integers(0, 2 ** nq - 1), min_size=8, max_size=8, unique=True))}


def far_fixed_cases(full):
    """every ordered qubit pair 3 or 4 apart on 5 qubits (routing swaps on both sides of the gate)"""
    pairs = [(0, 4), (4, 0), (0, 3), (1, 4), (3, 0), (4, 1)]
    for a, b in pairs:
        for g in (("cx", "cz") if full else ("cx",)):
            for aps in ((True, False) if full else (True,)):
                yield {"nq": 5, "gates": [["h", [a], []], ["t", [b], []], [g, [a, b], []], ["sx", [2], []]],
                       "aps": aps}


def build_qiskit(case):
    from qiskit import QuantumCircuit, QuantumRegister
    regs = case.get("regs")
    if regs:
        qc = QuantumCircuit(*[QuantumRegister(k, f"r{i}") for i, k in enumerate(regs)])
    else:
        qc = QuantumCircuit(case["nq"])
    for name, qs, ps in case["gates"]:
        getattr(qc, name)(*ps, *[qc.qubits[q] for q in qs])
    return qc


def refusal_legit(case):
    gates = case["gates"]
    for i, (name, qs, _) in enumerate(gates):
        if name in ("ccx", "ccz"):
            if not case["aps"]:
                return "three-qubit gate without post-selection"
            if max(qs) - min(qs) != 2:
                return "three-qubit gate on non-adjacent qubits"
            later = set()
            for n2, q2, _ in gates[i + 1:]:
                if len(q2) >= 2:
                    later |= set(q2)
            if sum(q in later for q in qs) >= 2:
                return "three-qubit gate with two qubits reused by later multi-qubit gates"
    return None


def run_convert(case):
    import lightworks as lw
    from lightworks.qubit import qiskit_converter
    from qiskit.quantum_info import Operator
    nq = case["nq"]
    qc = build_qiskit(case)
    V = np.asarray(Operator(qc).data)
    names = [g[0] for g in case["gates"]]
    labels = set()
    # the flag is given as a bool, a numpy bool (result of a comparison) or 0/1, depending on the case
    flag = (bool, np.bool_, int)[(len(case["gates"]) + nq) % 3](case["aps"])
    try:
        circ, rules = call_with_timeout("qiskit_converter", 10, qiskit_converter, qc,
                                        allow_post_selection=flag)
    except ValueError as e:
        why = refusal_legit(case)
        if why is None:
            raise Violation(f"converter refused a convertible circuit: {e}", key="refused-convertible") from e
        return {"nontrivial": False, "labels": ["refused:" + why]}
    except Violation:
        raise
    except Exception as e:  # noqa: BLE001
        raise Violation(f"converter raised {type(e).__name__}: {e}", key="wrong-exception") from e
    if circ.input_modes != 2 * nq:
        raise Violation(f"converted circuit has {circ.input_modes} input modes for {nq} qubits", key="mode-count")
    hp = sum(circ.heralds["input"].values())
    if case.get("max_photons") and nq + hp > case["max_photons"]:
        return {"nontrivial": False, "labels": ["too-many-heralded-gates-skipped"]}     # cost bound, by size
    outs = list(fock(2 * nq, nq))
    dim = 2 ** nq

    def qubit_index(o):
        idx = 0
        for q in range(nq):
            pair = (o[2 * q], o[2 * q + 1])
            if pair == (1, 0):
                pass
            elif pair == (0, 1):
                idx |= 1 << q
            else:
                return None
        return idx
    accepted = []
    for o in outs:
        if rules is None or rules.validate(lw.State(list(o))):
            accepted.append((o, qubit_index(o)))
    M = np.zeros((dim, dim), dtype=complex)
    # wide registers with many herald photons: a generated subset of the basis inputs (columns) instead of all of them
    cols = sorted(case["cols"]) if case.get("cols") and nq + hp > 8 else list(range(dim))
    if len(cols) < dim:
        labels.add("column-subset")
    for b in cols:
        vin = []
        for q in range(nq):
            vin += [0, 1] if (b >> q) & 1 else [1, 0]
        for o, qi in accepted:
            a = real_heralded_amp(circ, vin, list(o))
            if qi is None:
                if abs(a) > TOL:
                    raise Violation(f"accepted output {list(o)} outside the qubit subspace has amplitude {a:.6g} "
                                    f"for basis input {b:0{nq}b}", key="leak-outside-qubit-subspace")
            else:
                M[qi, b] = a
    V = V[:, cols]
    M = M[:, cols]
    k = np.vdot(V, M) / np.vdot(V, V)
    res = np.abs(M - k * V).max()
    if abs(k) < 1e-6:
        raise Violation(f"accepted amplitudes vanish (k = {k:.3g})", key="zero-scalar")
    if res > TOL:
        raise Violation(f"accepted amplitudes are not a common scalar times the qiskit unitary: residual {res:.4g} "
                        f"(k = {k:.5g})", key="wrong-unitary")
    n3 = sum(n in ("ccx", "ccz") for n in names)
    n2 = sum(n in ("cx", "cz") for n in names)
    b_h = hp // 2
    a_ps = n2 - b_h
    expk = (1 / 9) ** a_ps * (1 / 16) ** b_h * (1 / 72) ** n3
    if a_ps < 0 or abs(abs(k) ** 2 / expk - 1) > 1e-6:
        raise Violation(f"|k|^2 = {abs(k) ** 2:.6g}, expected (1/9)^{a_ps} (1/16)^{b_h} (1/72)^{n3} = {expk:.6g}",
                        key="success-probability")
    if not case["aps"] and rules is not None:
        raise Violation("rules returned although post-selection was not allowed", key="rules-without-aps")
    if a_ps and b_h:
        labels.add("mixed-heralded-and-post-selected")
    if n3:
        labels.add("three-qubit-gate")
    for name, qs, _ in case["gates"]:
        if len(qs) == 2 and abs(qs[0] - qs[1]) > 1:
            labels.add("non-adjacent-pair")
        if len(qs) == 2 and abs(qs[0] - qs[1]) > 2:
            labels.add("distance>=3")
        if name == "cx" and qs[0] > qs[1]:
            labels.add("reversed-control-target")
        if name == "swap":
            labels.add("swap")
    labels.add("aps" if case["aps"] else "heralded-only")
    if case.get("regs"):
        labels.add("several-registers")
    nondiag = any(n in ("h", "x", "y", "sx", "rx", "ry") for n in names)
    return {"nontrivial": (n2 + n3 >= 1) and nondiag, "labels": sorted(labels)}


def subs(tier):
    q = tier == "quick"
    return [
        Sub("convert", run_convert, strategy=qc_case(), examples=35 if q else 1500),
        Sub("far-apart-all-pairs", run_convert, cases=lambda: far_fixed_cases(full=not q), exhaustive=True),
        Sub("far-apart-qubits", run_convert, strategy=far_case(), examples=1 if q else 40),
        Sub("wide-registers", run_convert, strategy=wide_case(), examples=2 if q else 150),
        Sub("wide-brickwork", run_convert, strategy=brickwork_case(), examples=7 if q else 300),
        Sub("convert-forced-patterns", run_convert, strategy=qc_case(forced=True), examples=20 if q else 900),
    ]
