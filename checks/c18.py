"""C18 - State values behave as immutable Fock states; herald bookkeeping round-trips."""
import itertools
import math

import numpy as np
from hypothesis import strategies as st

from vlib.harness import Sub, Violation, call, expect_raises

PROPERTY = "C18"
RULE = ("Occupation lists (0-8 modes, 0-5 photons per mode, ints only), two further lists for algebraic laws, label "
        "lists for AnnotatedState with permuted label order, slices, herald dicts with keys in any order and any "
        "positions (incl. all heralds after / before / between the state modes), dB values and decimals in [0,1), "
        "seeds and dimensions; plus an exhaustive sweep over all states with <= 4 modes and <= 2 photons per mode "
        "for equality/hash/merge/+ laws. Oracle: Python list model (eq <=> same occupations, eq => same hash, + "
        "concatenates, merge adds mode-wise, slicing returns State, counts consistent, setters raise), no value "
        "obtained through the API aliases internal storage, herald insert-then-remove is the identity and inserted "
        "values sit at the herald modes, unit conversions invert each other, seeded random unitaries / "
        "permutations are valid and reproducible - also after the caller has overwritten an earlier result in place. "
        "Non-trivial = >= 2 modes and >= 1 photon, or a herald dict with "
        ">= 2 keys not in ascending order; distinct = case JSON."
        " Augmented operators applied through an alias must leave the state object alone; seeds are also given as float / numpy integer / numpy float twins; random_unitary also for N = 1 and 20.")
ASSUMPTIONS = ["State(list) keeps the caller's list object; mutating that list is outside 'through the API'",
               "occupations are Python or numpy integers (no bools / floats)"]

occ = st.lists(st.integers(0, 5), min_size=0, max_size=8)


@st.composite
def state_case(draw):
    a = draw(occ)
    b = draw(st.lists(st.integers(0, 5), min_size=len(a), max_size=len(a)))
    c = draw(st.lists(st.integers(0, 5), min_size=len(a), max_size=len(a)))
    d = draw(occ)
    lo = draw(st.integers(-2, 9))
    hi = draw(st.integers(-2, 9))
    step = draw(st.sampled_from([None, 1, 2, -1]))
    return {"a": a, "b": b, "c": c, "d": d, "slice": [lo, hi, step], "ctor": draw(st.sampled_from(["list", "tuple", "iter"]))}


def snapshot_state(s):
    return (str(s), hash(s), s.n_photons, s.n_modes, tuple(s.s))


def run_state(case):
    import lightworks as lw
    from lightworks.sdk.utils import StateError
    a, b, c, d = case["a"], case["b"], case["c"], case["d"]
    S = lw.State
    sa = S(list(a))
    ctor = case["ctor"]
    sa2 = S(list(a)) if ctor == "list" else S(tuple(a)) if ctor == "tuple" else S(iter(list(a)))
    sb, sc, sd = S(list(b)), S(list(c)), S(list(d))
    # equality / hash
    for x, lx, y, ly in [(sa, a, sa2, a), (sa, a, sb, b), (sa, a, sd, d), (sb, b, sc, c)]:
        eq = x == y
        if eq != (lx == ly):
            raise Violation(f"State({lx}) == State({ly}) is {eq}", key="equality")
        if eq and hash(x) != hash(y):
            raise Violation(f"equal states {lx} hash differently", key="hash")
        if (x != y) == eq:
            raise Violation("!= inconsistent with ==", key="equality")
    if sa == list(a) or sa == tuple(a):
        raise Violation("a State compares equal to a plain list/tuple", key="equality")
    if len({sa, sa2}) != 1:
        raise Violation("equal states are distinct set members", key="hash")
    # integer occupations that happen to be numpy integers (a row of an integer array) are the same Fock state
    sn = S([np.int64(x) for x in a]) if len(a) % 2 else S(list(np.array(a, dtype=np.int64)))
    if sn != sa or hash(sn) != hash(sa) or str(sn) != str(sa) or len({sa, sn}) != 1:
        raise Violation(f"State built from numpy integers {a}: str {str(sn)!r}, equal to the plain-int state: "
                        f"{sn == sa}, same hash: {hash(sn) == hash(sa)}", key="numpy-int-occupations")
    # counts
    if len(sa) != len(a) or sa.n_modes != len(a) or sa.n_photons != sum(a) or list(sa) != a or sa.s != a:
        raise Violation(f"len/n_modes/n_photons/iteration inconsistent for {a}", key="counts")
    for i, v in enumerate(a):
        if sa[i] != v:
            raise Violation(f"indexing: state[{i}] = {sa[i]}, expected {v}", key="indexing")
    # + concatenates, associative
    if (sa + sd).s != a + d or ((sa + sd) + sb).s != (sa + (sd + sb)).s or (sa + sd).n_photons != sum(a) + sum(d):
        raise Violation("+ does not concatenate", key="concatenation")
    if not isinstance(sa + sd, S):
        raise Violation("+ does not return a State", key="concatenation")
    # merge: mode-wise sum, commutative, associative
    m = sa.merge(sb)
    if m.s != [x + y for x, y in zip(a, b)] or m != sb.merge(sa) or sa.merge(sb).merge(sc) != sa.merge(sb.merge(sc)):
        raise Violation("merge is not the commutative, associative mode-wise sum", key="merge")
    if len(d) != len(a):
        expect_raises("merge-length-mismatch", (ValueError,), sa.merge, sd)
    # slicing
    lo, hi, step = case["slice"]
    sl = slice(lo, hi, step)
    got = sa[sl]
    if not isinstance(got, S) or got.s != a[sl]:
        raise Violation(f"slicing {sl} of {a} gave {got}", key="slicing")
    # immutability through the API
    snap = snapshot_state(sa)
    expect_raises("setitem", (StateError, TypeError, AttributeError), sa.__setitem__, 0, 3)
    expect_raises("set-s", (StateError, AttributeError), setattr, sa, "s", [1])
    expect_raises("set-n_modes", (StateError, AttributeError), setattr, sa, "n_modes", 3)
    leaks = [("s", sa.s), ("iteration", list(sa)), ("slice", sa[0:len(a)].s), ("sum", (sa + S([])).s),
             ("merge", sa.merge(S([0] * len(a))).s)]
    for name, lst in leaks:
        lst.append(7)
        if lst[:-1] and len(lst) > 1:
            lst[0] = 99
    # augmented operators rebind the name they are applied to and leave the state object (and so every other reference
    # to it: an alias, a dict key, a shared start value) alone
    import operator
    for opname, fn, arg in (("+=", operator.iadd, sb), ("+= empty", operator.iadd, S([])), ("*=", operator.imul, 2),
                            ("|=", operator.ior, sb), ("&=", operator.iand, sb)):
        tmp = sa
        try:
            tmp = fn(tmp, arg)
        except Exception:  # noqa: BLE001, S110  (not supported: nothing to check)
            pass
        else:
            if opname == "+=" and tmp.s != a + b:
                raise Violation(f"s += t gives {tmp.s}, expected the concatenation {a + b}", key="concatenation")
    sliced = sa[0:len(a)]
    other = sa + S([])
    for obj in (sliced, other):
        try:
            obj.s.append(1)
        except Exception:  # noqa: BLE001
            pass
    if snapshot_state(sa) != snap:
        raise Violation(f"a value obtained through the API aliased the internal storage of State({a})",
                        key="state-alias")
    nt = len(a) >= 2 and sum(a) >= 1
    return {"nontrivial": nt, "labels": ["slice-step" if step not in (None, 1) else "slice"]}


@st.composite
def annotated_case(draw):
    n = draw(st.integers(0, 6))
    labels = [draw(st.lists(st.integers(0, 4), max_size=4)) for _ in range(n)]
    perm = [list(draw(st.permutations(l))) for l in labels]
    other = [draw(st.lists(st.integers(0, 4), max_size=3)) for _ in range(n)]
    extra = [draw(st.lists(st.integers(0, 4), max_size=2)) for _ in range(draw(st.integers(0, 3)))]
    return {"labels": labels, "perm": perm, "other": other, "extra": extra}


def run_annotated(case):
    from lightworks.emulator.state import AnnotatedState as A
    from lightworks.emulator.utils import AnnotatedStateError
    L, P, O, E = case["labels"], case["perm"], case["other"], case["extra"]
    a, p, o, e = A([list(x) for x in L]), A([list(x) for x in P]), A([list(x) for x in O]), A([list(x) for x in E])
    if a != p or hash(a) != hash(p):
        raise Violation("annotated state equality/hash depends on label order", key="annotated-order")
    same = [sorted(x) for x in L] == [sorted(x) for x in O]
    if (a == o) != same:
        raise Violation(f"AnnotatedState({L}) == AnnotatedState({O}) is {a == o}", key="annotated-equality")
    if a == o and hash(a) != hash(o):
        raise Violation("equal annotated states hash differently", key="hash")
    if a.n_modes != len(L) or len(a) != len(L) or a.n_photons != sum(len(x) for x in L):
        raise Violation("annotated counts inconsistent", key="counts")
    if [sorted(x) for x in a.s] != [sorted(x) for x in L]:
        raise Violation(".s does not hold the label multisets", key="counts")
    s_ = a + e
    if [sorted(x) for x in s_.s] != [sorted(x) for x in L + E] or not isinstance(s_, A):
        raise Violation("annotated + does not concatenate", key="concatenation")
    m = a.merge(o)
    if [sorted(x) for x in m.s] != [sorted(x + y) for x, y in zip(L, O)] or m != o.merge(a):
        raise Violation("annotated merge is not the commutative mode-wise multiset sum", key="merge")
    if len(E) != len(L):
        expect_raises("merge-length", (ValueError,), a.merge, e)
    if len(L) >= 1:
        sl = a[0:len(L):2]
        if not isinstance(sl, A) or [sorted(x) for x in sl.s] != [sorted(x) for x in L[0:len(L):2]]:
            raise Violation("annotated slicing wrong", key="slicing")
    expect_raises("setitem", (AnnotatedStateError, TypeError, AttributeError), a.__setitem__, 0, [1])
    expect_raises("set-s", (AnnotatedStateError, AttributeError), setattr, a, "s", [[1]])
    snap = (str(a), hash(a), a.n_photons, [list(x) for x in a.s])
    # no alias through .s (outer and inner lists), iteration, int indexing, slicing, +, merge
    outer = a.s
    outer.append([9])
    for inner in a.s:
        inner.append(9)
    for inner in a:
        inner.append(8)
    for i in range(len(L)):
        a[i].append(7)
    for obj in (a[0:len(L)], a + A([]), a.merge(A([[] for _ in L]))):
        for inner in obj.s:
            inner.append(6)
    import operator
    for fn, arg in ((operator.iadd, e), (operator.iadd, A([])), (operator.imul, 2)):
        tmp = a
        try:
            tmp = fn(tmp, arg)
        except Exception:  # noqa: BLE001, S110
            pass
    now = (str(a), hash(a), a.n_photons, [list(x) for x in a.s])
    if now != snap:
        raise Violation(f"a value obtained through the API aliased the internal storage of AnnotatedState({L})",
                        key="annotated-alias")
    return {"nontrivial": len(L) >= 2 and sum(len(x) for x in L) >= 1, "labels": []}


@st.composite
def herald_case(draw):
    n_state = draw(st.integers(0, 6))
    n_h = draw(st.integers(0, 4))
    total = n_state + n_h
    layout = draw(st.sampled_from(["any", "any", "after", "before"]))
    if layout == "after":
        pos = list(range(n_state, total))
    elif layout == "before":
        pos = list(range(n_h))
    else:
        pos = sorted(draw(st.permutations(range(total)))[:n_h])
    pos = list(draw(st.permutations(pos)))
    heralds = [[p, draw(st.integers(0, 3))] for p in pos]
    state = draw(st.lists(st.integers(0, 4), min_size=n_state, max_size=n_state))
    return {"state": state, "heralds": heralds, "as_state": draw(st.booleans())}


def run_herald(case):
    import lightworks as lw
    from lightworks.sdk.utils import add_heralds_to_state, remove_heralds_from_state
    state, hl = case["state"], case["heralds"]
    heralds = {int(k): int(v) for k, v in hl}
    arg = lw.State(list(state)) if case["as_state"] else list(state)
    full = call("add_heralds_to_state", add_heralds_to_state, arg, dict(heralds))
    full = list(full)
    if len(full) != len(state) + len(heralds):
        raise Violation(f"herald insertion gave length {len(full)}", key="herald-insert")
    for m, v in heralds.items():
        if full[m] != v:
            raise Violation(f"add_heralds_to_state({state}, {heralds}) = {full}: mode {m} holds {full[m]}, herald "
                            f"value is {v}", key="herald-insert")
    rest = [x for i, x in enumerate(full) if i not in heralds]
    if rest != state:
        raise Violation(f"herald insertion reordered the state modes: {full}", key="herald-insert")
    keys = list(heralds.keys())
    for fs in (list(full), lw.State(list(full))):
        back = call("remove_heralds_from_state", remove_heralds_from_state, fs, list(keys))
        if list(back) != state:
            raise Violation(f"remove(add(s)) = {list(back)} != {state} for heralds {heralds}", key="herald-roundtrip")
        if not isinstance(back, list) or back != state:
            raise Violation(f"remove_heralds_from_state returned {back!r} ({type(back).__name__}), not the list of "
                            f"occupations {state} (heralds {heralds})", key="herald-roundtrip")
        back.append(9)                 # the result is the caller's: using it must not reach the argument
        if list(fs) != list(full):
            raise Violation(f"remove_heralds_from_state({list(full)}, {keys}) returned an alias of its argument",
                            key="herald-alias")
    if (case["as_state"] and arg.s != state) or (not case["as_state"] and arg != state):
        raise Violation("herald helpers modified their argument", key="herald-argument-modified")
    if not heralds:
        full.append(5)
        if (arg.s if case["as_state"] else arg) != state:
            raise Violation("herald helper returned an alias of its argument", key="herald-alias")
    unsorted = len(keys) >= 2 and keys != sorted(keys)
    return {"nontrivial": unsorted, "labels": ["heralds-after-state"] if heralds and min(heralds) >= len(state) else []}


@st.composite
def numeric_case(draw):
    return {"db": draw(st.one_of(st.floats(0, 60), st.sampled_from([0.0, 3.0, 10.0]))),
            "dec": draw(st.one_of(st.floats(0, 1, exclude_max=True), st.sampled_from([0.0, 0.5, 0.999999]))),
            "bad": draw(st.sampled_from([1.0, 1.5, -0.1, 2])),
            "n": draw(st.sampled_from([1, 1, 2, 3, 4, 5, 6, 7, 8, 20])), "seed": draw(st.integers(0, 2 ** 31 - 1)),
            "badseed": draw(st.sampled_from([1.5, "a", True, [1]]))}


def run_numeric(case):
    import lightworks as lw
    db, dec = case["db"], case["dec"]
    d2 = call("db_loss_to_decimal", lw.db_loss_to_decimal, db)
    if not (0 <= d2 < 1) and db < 150:
        raise Violation(f"db_loss_to_decimal({db}) = {d2}", key="conversion-range")
    if d2 < 1:
        back = call("decimal_to_db_loss", lw.decimal_to_db_loss, d2)
        if abs(back - db) > 1e-9 * max(1.0, db) + 1e-9 * 10 ** (db / 10):
            raise Violation(f"dB -> decimal -> dB: {db} -> {d2} -> {back}", key="conversion-roundtrip")
    if call("gain sign", lw.db_loss_to_decimal, -db) != d2:
        raise Violation("sign of the dB value is not ignored", key="conversion-sign")
    b = call("decimal_to_db_loss", lw.decimal_to_db_loss, dec)
    if b < 0:
        raise Violation("dB loss returned negative", key="conversion-range")
    d3 = lw.db_loss_to_decimal(b)
    if abs(d3 - dec) > 1e-12:
        raise Violation(f"decimal -> dB -> decimal: {dec} -> {b} -> {d3}", key="conversion-roundtrip")
    if abs(1 - 10 ** (-db / 10) - d2) > 1e-12:
        raise Violation("db_loss_to_decimal does not match 1 - 10^(-dB/10)", key="conversion-formula")
    from vlib.harness import expect_raises as er
    er("decimal>=1", (ValueError,), lw.decimal_to_db_loss, case["bad"])
    n, seed = case["n"], case["seed"]
    U = call("random_unitary", lw.random_unitary, n, seed)
    if U.shape != (n, n) or np.abs(U.conj().T @ U - np.eye(n)).max() > 1e-9:
        raise Violation("random_unitary is not unitary", key="random-unitary")
    if not np.array_equal(U, lw.random_unitary(n, seed)):
        raise Violation("random_unitary not reproducible for a fixed seed", key="random-reproducible")
    Pm = call("random_permutation", lw.random_permutation, n, seed)
    if Pm.shape != (n, n) or not np.array_equal(np.sort(np.abs(Pm), axis=0)[-1], np.ones(n)) or \
            not np.allclose(Pm.sum(axis=0), 1) or not np.allclose(Pm.sum(axis=1), 1) or \
            not np.all((np.abs(Pm) < 1e-12) | (np.abs(Pm - 1) < 1e-12)):
        raise Violation("random_permutation is not a permutation matrix", key="random-permutation")
    if not np.array_equal(Pm, lw.random_permutation(n, seed)):
        raise Violation("random_permutation not reproducible for a fixed seed", key="random-reproducible")
    # "reproducible" includes: what a caller does to a matrix it was given cannot change what the next call returns
    for name, fn, first in (("random_unitary", lw.random_unitary, U), ("random_permutation", lw.random_permutation, Pm)):
        keep = np.array(first, copy=True)
        try:
            first[...] = 0
        except (ValueError, TypeError):
            pass                      # a read-only array is fine too
        again = fn(n, seed)
        if not np.array_equal(again, keep):
            raise Violation(f"{name}({n}, seed={seed}) returns something else after an earlier result was "
                            f"overwritten in place by the caller", key="random-result-aliased")
    # the same seed in another numeric guise (integer-valued float, numpy integer / float) is the same seed
    for twin in (float(seed), np.int64(seed), np.float64(seed)):
        for name, fn, first in (("random_unitary", lw.random_unitary, U), ("random_permutation", lw.random_permutation, Pm)):
            if name == "random_unitary" and seed >= 2 ** 32:
                continue
            got = call(f"{name}(seed={type(twin).__name__})", fn, n, twin)
            if not np.array_equal(got, fn(n, seed)):
                raise Violation(f"{name}({n}, seed={twin!r}) differs from seed={seed}", key="random-reproducible")
    er("bad-seed-unitary", (TypeError,), lw.random_unitary, n, case["badseed"])
    er("bad-seed-permutation", (TypeError,), lw.random_permutation, n, case["badseed"])
    return {"nontrivial": True, "labels": []}


def small_state_pairs():
    for n in range(0, 4):
        sts = list(itertools.product(range(3), repeat=n))
        for a in sts:
            for b in sts[:: max(1, len(sts) // 9)]:
                yield {"a": list(a), "b": list(b), "c": list(b)[::-1], "d": list(a)[:1], "slice": [0, n, None],
                       "ctor": "tuple"}
    for a in itertools.product(range(3), repeat=4):
        yield {"a": list(a), "b": list(a)[::-1], "c": [1, 0, 2, 0], "d": [], "slice": [1, 3, None], "ctor": "list"}


def subs(tier):
    q = tier == "quick"
    return [
        Sub("state", run_state, strategy=state_case(), examples=300 if q else 20000),
        Sub("state-small-exhaustive", run_state, cases=small_state_pairs, exhaustive=True),
        Sub("annotated-state", run_annotated, strategy=annotated_case(), examples=250 if q else 15000),
        Sub("heralds", run_herald, strategy=herald_case(), examples=300 if q else 20000),
        Sub("conversion-random", run_numeric, strategy=numeric_case(), examples=150 if q else 5000),
    ]
