"""C14 - Reck mapping reproduces any unitary; noise enters only through the error model."""
import math

import numpy as np
from hypothesis import strategies as st

from vlib import gen
from vlib.build import build_real
from vlib.harness import Sub, Violation, call
from vlib.refmodel import UNITARY_KINDS, make_unitary

PROPERTY = "C14"
RULE = ("Unitaries on 2-8 (10 thorough) modes of kinds haar / identity / permutation / diagonal / DFT / "
        "block-diagonal / permutation x phases / exp(i eps H) with eps in {1e-6,1e-9,1e-12} / real orthogonal, "
        "products of two of them, and lossless circuits from the program generator with heralds (external and "
        "nested heralded sub-circuits). Default model: mapped circuit consists of barriers, phase shifters and "
        "adjacent-mode beam splitters only, U equals the original (1e-8), heralds equal, phases in [0, 2pi]. "
        "Error models: each of bs_reflectivity / loss / phase_offset drawn from Constant | Gaussian(center, sigma, "
        "bounds 0.3-3 sigma around the centre, on both sides / one side only / none) | TopHat, generated seed: every reflectivity / loss in the mapped "
        "circuit and 200 direct draws lie within the declared bounds, phases minus ideal phases (mod 2pi) lie "
        "within the offset bounds, the same seed gives the identical circuit, U_full is unitary and U has "
        "singular values <= 1. Non-trivial = a unitary with an exactly-zero or < 1e-8 entry, or a non-constant "
        "error model; distinct = case JSON."
        " Also: zero-valued loss elements, Unitary objects extended after construction, and every noisy map repeated in a second interpreter with another hash salt.")
ASSUMPTIONS = [
    "only lossless circuits are mapped (the property's domain)",
    "the upper end of the phase interval is accepted closed in floating point (phase <= float(2*pi))",
    "Gaussian bounds always keep >= 0.3 sigma on each side of the centre (stricter bounds are documented as the "
    "user's responsibility); an open side of a reflectivity / loss Gaussian is >= 10 sigma away from 0 and 1, so "
    "that an unbounded draw is never an invalid component value",
]


@st.composite
def unitary_case(draw, max_n=8):
    n = draw(st.one_of(st.integers(2, max_n), st.sampled_from([1, 1, 2])))
    kinds = [k for k in UNITARY_KINDS]
    k1 = draw(st.sampled_from(kinds))
    spec = [[k1, draw(st.integers(0, 10 ** 6))]]
    if draw(st.integers(0, 3)) == 0:
        spec.append([draw(st.sampled_from(kinds)), draw(st.integers(0, 10 ** 6))])
    return {"n": n, "unitary": spec, "prog": None}


@st.composite
def rounded_case(draw):
    """A unitary written down with 10 decimals (as when it is loaded from a text file): unitary to ~5e-11,
    which lightworks accepts (unitary_precision = 1e-10)."""
    n = draw(st.integers(2, 6))
    return {"n": n, "unitary": [[draw(st.sampled_from(["haar", "haar", "real", "block", "dft"])),
                                 draw(st.integers(0, 10 ** 6))]], "prog": None, "round": draw(st.sampled_from([10, 10, 11]))}


@st.composite
def circuit_case(draw):
    prog = draw(st.one_of(gen.program(min_n=2, max_n=5, depth=2, max_ops=6, lossy=False),
                          gen.addition_tree(max_n=4, max_adds=2, lossy=False)))
    # "lossless" is a statement about the transformation: loss elements of value zero leave the circuit lossless
    for _ in range(draw(st.sampled_from([0, 0, 1, 2]))):
        prog["ops"].insert(draw(st.integers(0, len(prog["ops"]))), ["loss", draw(st.integers(0, prog["n"] - 1)), 0.0])
    return {"n": prog["n"], "unitary": None, "prog": prog}


@st.composite
def unitary_object_case(draw):
    """A lightworks.Unitary object that was extended after construction (it is a Circuit like any other)."""
    n = draw(st.integers(2, 6))
    kind = draw(st.sampled_from(["haar", "dft", "perm", "identity", "hadamard", "real"]))
    ops = draw(st.lists(gen.primitive(n, False), min_size=1, max_size=4))
    return {"n": n, "unitary": None, "prog": None, "unitary_base": [kind, draw(st.integers(0, 10 ** 6))], "ops": ops}


def dist_strategy(kind):
    """kind: 'refl' values must stay in [0,1]; 'loss' in [0,1]; 'phase' anywhere."""
    centre = {"refl": st.floats(0.3, 0.7), "loss": st.floats(0.05, 0.3), "phase": st.floats(-0.5, 0.5)}[kind]
    sigma = {"refl": st.floats(0.005, 0.08), "loss": st.floats(0.005, 0.04), "phase": st.floats(0.01, 0.3)}[kind]

    @st.composite
    def gaussian(draw):
        c, s = draw(centre), draw(sigma)
        lo = c - draw(st.floats(0.3, 3.0)) * s
        hi = c + draw(st.floats(0.3, 3.0)) * s
        if kind in ("refl", "loss"):
            lo, hi = max(0.0, lo), min(1.0, hi)
        side = draw(st.sampled_from(["both", "both", "both", "min-only", "max-only", "none"]))
        if side != "both":
            # an open side must be harmless by itself: >= 10 sigma away from the physical limit of the quantity,
            # so that an unbounded draw is never an invalid reflectivity / loss (probability < 1e-22 per draw)
            if kind in ("refl", "loss"):
                s = min(s, c / 10, (1 - c) / 10)
                lo, hi = max(lo, c - 3 * s), min(hi, c + 3 * s)
            if side in ("max-only", "none"):
                lo = None
            if side in ("min-only", "none"):
                hi = None
        return ["gaussian", c, s, lo, hi]

    @st.composite
    def tophat(draw):
        c, s = draw(centre), draw(sigma)
        lo, hi = c - s, c + draw(st.floats(0, 2)) * s
        if kind in ("refl", "loss"):
            lo, hi = max(0.0, lo), min(1.0, hi)
        return ["tophat", lo, hi]
    const = centre.map(lambda c: ["constant", c])
    default = st.just(["constant", {"refl": 0.5, "loss": 0, "phase": 0}[kind]])
    return st.one_of(default, const, gaussian(), tophat())


@st.composite
def noisy_case(draw):
    base = draw(st.one_of(unitary_case(max_n=6), circuit_case()))
    base["model"] = {"refl": draw(dist_strategy("refl")), "loss": draw(dist_strategy("loss")),
                     "phase": draw(dist_strategy("phase"))}
    base["seed"] = draw(st.integers(0, 2 ** 31 - 1))
    # optionally the error model object has a history: configured differently and used before
    if draw(st.booleans()):
        base["prior"] = {"refl": draw(dist_strategy("refl")), "loss": draw(dist_strategy("loss")),
                         "phase": draw(dist_strategy("phase"))}
        perm = list(draw(st.permutations(["refl", "loss", "phase"])))
        base["order"] = perm[:draw(st.integers(1, 3))]        # only these are re-assigned after the first use
        for key in ("refl", "loss", "phase"):
            if key not in base["order"]:
                base["model"][key] = base["prior"][key]
    return base


def make_circuit(case):
    import lightworks as lw
    if case.get("unitary_base"):
        from vlib.build import apply_real
        kind, seed = case["unitary_base"]
        c = lw.Unitary(make_unitary(kind, case["n"], seed))
        for op in case["ops"]:
            call("extend Unitary object", apply_real, c, op)
        return c
    if case["prog"] is not None:
        return call("build", build_real, case["prog"])
    n = case["n"]
    U = np.eye(n, dtype=complex)
    for kind, seed in case["unitary"]:
        U = make_unitary(kind, n, seed) @ U
    if case.get("round"):
        U = np.round(U, case["round"])
        try:
            return lw.Unitary(U)
        except ValueError:
            return None          # rounding pushed it past lightworks' own unitarity tolerance: outside the domain
    return lw.Unitary(U)


def make_dist(d):
    from lightworks.interferometers import dists
    if d[0] == "constant":
        return dists.Constant(d[1]), (d[1], d[1])
    if d[0] == "gaussian":
        b = (-math.inf if d[3] is None else d[3], math.inf if d[4] is None else d[4])
        return dists.Gaussian(d[1], d[2], min_value=d[3], max_value=d[4]), b
    return dists.TopHat(d[1], d[2]), (d[1], d[2])


def components(circ):
    from lightworks.sdk.circuit.components import Barrier, BeamSplitter, Loss, PhaseShifter
    ps, bs, loss, other = [], [], [], []
    for s in circ._get_circuit_spec():
        if isinstance(s, PhaseShifter):
            ps.append(s)
        elif isinstance(s, BeamSplitter):
            bs.append(s)
        elif isinstance(s, Loss):
            loss.append(s)
        elif not isinstance(s, Barrier):
            other.append(s)
    return ps, bs, loss, other


def run_ideal(case):
    from lightworks import interferometers
    c = make_circuit(case)
    if c is None:
        return {"nontrivial": False, "labels": ["rounded-matrix-rejected-as-non-unitary"]}
    U = c.U
    variant = int(np.abs(U).sum() * 1e6) % 4       # a function of the case
    if variant == 1:
        # some other interferometer object, created with the default error model too, was made noisy in place
        # earlier on: "the default error model" of a new Reck() is still the ideal one
        other_reck = interferometers.Reck()
        other_reck.error_model.loss = interferometers.dists.TopHat(0.1, 0.3)
        other_reck.error_model.bs_reflectivity = interferometers.dists.Gaussian(0.4, 0.05, min_value=0.2, max_value=0.6)
        other_reck.error_model.phase_offset = interferometers.dists.Constant(0.3)
    reck = interferometers.Reck()
    if variant == 2 and case["prog"] is not None:
        # the same Reck object has mapped an earlier version of this very circuit object before
        grown = make_circuit(case)
        call("Reck().map (earlier version)", reck.map, grown)
        grown.bs(0)
        grown.ps(0, 0.7)
        c, U = grown, grown.U
    mapped = call("Reck().map", reck.map, c)
    ps, bs, loss, other = components(mapped)
    if other or loss:
        raise Violation(f"mapped circuit contains {[type(o).__name__ for o in other + loss]}",
                        key="unexpected-component")
    for b in bs:
        if abs(b.mode_1 - b.mode_2) != 1:
            raise Violation(f"mapped beam splitter on non-adjacent modes {b.mode_1},{b.mode_2}", key="non-adjacent-bs")
    for p in ps:
        if not (0 <= p.phi <= 2 * math.pi):
            raise Violation(f"programmed phase {p.phi!r} outside [0, 2pi)", key="phase-range")
    err = np.abs(mapped.U - U).max()
    if not err <= 1e-8:
        raise Violation(f"mapped unitary differs from the original by {err:.3g}", key="unitary-mismatch")
    if mapped.heralds != c.heralds:
        raise Violation(f"mapped heralds {mapped.heralds} != original {c.heralds}", key="heralds-mismatch")
    if mapped.n_modes != c.n_modes:
        raise Violation("mapped circuit has a different number of modes", key="mode-count")
    small = np.abs(U)
    structured = bool((small < 1e-8).any())
    labels = []
    if structured:
        labels.append("zero-or-tiny-entry")
    if case["prog"] is not None:
        labels.append("circuit-with-heralds" if c.heralds["input"] else "circuit")
    elif case.get("unitary_base"):
        labels.append("extended-unitary-object:" + case["unitary_base"][0])
    else:
        labels.append("kind:" + case["unitary"][0][0])
    if case["prog"] is not None and any(op[0] == "loss" for op in case["prog"]["ops"]):
        labels.append("zero-valued-loss-element")
    if case.get("round"):
        labels.append("rounded-accepted")
    return {"nontrivial": structured or bool(c.heralds["input"]) or bool(case.get("round"))
            or bool(case.get("unitary_base")), "labels": labels}


def run_noisy(case):
    from lightworks import interferometers
    c = make_circuit(case)
    em = interferometers.ErrorModel()
    bounds = {}
    attrs = {"refl": "bs_reflectivity", "loss": "loss", "phase": "phase_offset"}
    order = ["refl", "loss", "phase"]
    if case.get("prior"):
        for key in order:
            setattr(em, attrs[key], make_dist(case["prior"][key])[0])
        call("Reck(prior).map", interferometers.Reck(em).map, c, seed=case["seed"] % 97)
        order = case["order"]
    for key in ("refl", "loss", "phase"):
        attr = attrs[key]
        if key in order:
            d, b = make_dist(case["model"][key])
            setattr(em, attr, d)
        else:
            d, b = getattr(em, attr), make_dist(case["model"][key])[1]
        bounds[key] = b
        # direct draws stay inside the declared bounds, and are reproducible
        if hasattr(d, "set_random_seed"):
            d.set_random_seed(case["seed"] % 1000)
        vals = [d.value() for _ in range(200)]
        if min(vals) < b[0] - 1e-12 or max(vals) > b[1] + 1e-12:
            raise Violation(f"{case['model'][key]}: drew {min(vals)}..{max(vals)} outside bounds {b}",
                            key="draw-outside-bounds")
        if hasattr(d, "set_random_seed"):
            d.set_random_seed(case["seed"] % 1000)
            vals2 = [d.value() for _ in range(200)]
            if vals != vals2:
                raise Violation(f"{case['model'][key]}: same seed gave different draws", key="seed-not-reproducible")
    reck = interferometers.Reck(em)
    m1 = call("Reck(em).map", reck.map, c, seed=case["seed"])
    m2 = call("Reck(em).map", reck.map, c, seed=case["seed"])
    ps1, bs1, loss1, other = components(m1)
    ps2, bs2, loss2, _ = components(m2)
    sig1 = [(p.mode, p.phi) for p in ps1] + [(b.mode_1, b.mode_2, b.reflectivity) for b in bs1] + \
           [(l.mode, l.loss) for l in loss1]
    sig2 = [(p.mode, p.phi) for p in ps2] + [(b.mode_1, b.mode_2, b.reflectivity) for b in bs2] + \
           [(l.mode, l.loss) for l in loss2]
    if sig1 != sig2:
        raise Violation("the same seed gave two different mapped circuits", key="seed-not-reproducible")
    if case.get("prior"):
        em_f = interferometers.ErrorModel()
        for key in ("refl", "loss", "phase"):
            setattr(em_f, attrs[key], make_dist(case["model"][key])[0])
        m3 = call("Reck(fresh em).map", interferometers.Reck(em_f).map, c, seed=case["seed"])
        ps3, bs3, loss3, _ = components(m3)
        sig3 = [(p.mode, p.phi) for p in ps3] + [(b.mode_1, b.mode_2, b.reflectivity) for b in bs3] + \
               [(l.mode, l.loss) for l in loss3]
        if sig3 != sig1:
            raise Violation("a re-configured error model and a fresh one with the same distributions give different "
                            "circuits for the same seed", key="seed-not-reproducible")
    if other:
        raise Violation("unexpected component in mapped circuit", key="unexpected-component")
    for b in bs1:
        if not (bounds["refl"][0] - 1e-12 <= b.reflectivity <= bounds["refl"][1] + 1e-12):
            raise Violation(f"reflectivity {b.reflectivity} outside error-model bounds {bounds['refl']}",
                            key="value-outside-bounds")
        if abs(b.mode_1 - b.mode_2) != 1:
            raise Violation("non-adjacent beam splitter", key="non-adjacent-bs")
    for l in loss1:
        if not (bounds["loss"][0] - 1e-12 <= l.loss <= bounds["loss"][1] + 1e-12):
            raise Violation(f"loss {l.loss} outside error-model bounds {bounds['loss']}", key="value-outside-bounds")
    ideal = call("Reck().map", interferometers.Reck().map, c)
    psi, _, _, _ = components(ideal)
    if len(psi) != len(ps1):
        raise Violation("noisy and ideal maps have different numbers of phase shifters", key="structure")
    lo, hi = bounds["phase"]
    for a, b in zip(ps1, psi):
        if not (0 <= a.phi <= 2 * math.pi):
            raise Violation(f"programmed phase {a.phi} outside [0, 2pi)", key="phase-range")
        delta = (a.phi - b.phi + math.pi) % (2 * math.pi) - math.pi
        if not (lo - 1e-9 <= delta <= hi + 1e-9):
            # wrap-around ambiguity at +-pi cannot occur: offsets are within (-pi, pi)
            raise Violation(f"phase offset {delta} outside error-model bounds {(lo, hi)}", key="value-outside-bounds")
    Uf = m1.U_full
    dev = np.abs(Uf.conj().T @ Uf - np.eye(Uf.shape[0])).max()
    if dev > 1e-9:
        raise Violation(f"noisy mapped circuit: U_full not unitary ({dev:.3g})", key="not-unitary")
    sv = np.linalg.svd(m1.U, compute_uv=False)
    if sv.max() > 1 + 1e-9:
        raise Violation(f"noisy mapped circuit: singular value {sv.max()} > 1", key="not-sub-unitary")
    if m1.heralds != c.heralds:
        raise Violation("noisy mapped heralds differ from original", key="heralds-mismatch")
    nonconst = [k for k in ("refl", "loss", "phase") if case["model"][k][0] != "constant"]
    labels = [f"{k}:{case['model'][k][0]}" for k in ("refl", "loss", "phase")]
    if case.get("prior"):
        labels.append("error-model-reconfigured-after-use")
    return {"nontrivial": bool(nonconst), "labels": labels}


def noisy_signature(case):
    """Every programmed value of the noisy map of `case` for its seed (evaluated here and in a second interpreter)."""
    from lightworks import interferometers
    c = make_circuit(case)
    em = interferometers.ErrorModel()
    attrs = {"refl": "bs_reflectivity", "loss": "loss", "phase": "phase_offset"}
    for key in ("refl", "loss", "phase"):
        setattr(em, attrs[key], make_dist(case["model"][key])[0])
    m = interferometers.Reck(em).map(c, seed=case["seed"])
    ps, bs, loss, _ = components(m)
    return ([[p.mode, float(p.phi)] for p in ps] + [[b.mode_1, b.mode_2, float(b.reflectivity)] for b in bs]
            + [[l.mode, float(l.loss)] for l in loss])


def run_noisy_peer(case):
    """"the same seed gives the same mapped circuit" - also when the program is run again: a second interpreter
    (which salts hash() differently) must program exactly the same values."""
    from vlib import peer
    case = {k: v for k, v in case.items() if k not in ("prior", "order")}
    here = call("Reck(em).map", noisy_signature, case)
    kind, there = peer.ask("checks.c14", "noisy_signature", case)
    if kind != "ok":
        raise Violation(f"noisy map works here but raised in a second interpreter: {there}",
                        key="seed-not-reproducible-across-processes")
    if here != there:
        diff = next((a, b) for a, b in zip(here, there) if a != b) if len(here) == len(there) else (len(here), len(there))
        raise Violation(f"seed {case['seed']}: noisy map programs {diff[0]} in this interpreter and {diff[1]} in a "
                        f"second one (PYTHONHASHSEED {peer.PEER_HASHSEED})", key="seed-not-reproducible-across-processes")
    random_kinds = sum(case["model"][k][0] != "constant" for k in ("refl", "loss", "phase"))
    return {"nontrivial": random_kinds >= 1, "labels": [f"random-quantities:{random_kinds}"]}


def subs(tier):
    q = tier == "quick"
    return [
        Sub("ideal-unitaries", run_ideal, strategy=unitary_case(max_n=8 if q else 10), examples=200 if q else 8000),
        Sub("rounded-unitaries", run_ideal, strategy=rounded_case(), examples=100 if q else 3000),
        Sub("ideal-circuits", run_ideal, strategy=circuit_case(), examples=100 if q else 3000),
        Sub("extended-unitary-objects", run_ideal, strategy=unitary_object_case(), examples=40 if q else 1500),
        Sub("seed-across-interpreters", run_noisy_peer, strategy=noisy_case(), examples=8 if q else 500),
        Sub("error-models", run_noisy, strategy=noisy_case(), examples=100 if q else 4000),
    ]
