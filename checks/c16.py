"""C16 - process tomography and gate fidelity agree with the library's own references."""
import numpy as np
from hypothesis import strategies as st

from vlib import qubits
from vlib.build import snapshot
from vlib.harness import Sub, Violation, call

PROPERTY = "C16"
RULE = ("1 qubit: V = product of 1-4 arbitrary 2x2 unitaries (haar blocks), named gates and rotations; 2 qubits: "
        "products of 1-5 single-qubit unitaries, CZ/CNOT in both orientations (post-selected and heralded) and SWAP; "
        "V is computed by plain Kronecker algebra, never from lightworks. The experiment callback returns the exact "
        "heralded, dual-rail post-selected outcome weights of each requested circuit/input (own permanent; for LI and "
        "gate fidelity optionally with a different total per circuit), 0-2 extra callback arguments. Oracle: "
        "LI choi == choi_from_unitary(V) entry-wise (1e-8) and fidelity 1 (1e-6); MLE choi Hermitian, min eigenvalue "
        ">= -1e-6, trace-preserving (1e-3), process_fidelity and reported fidelity in [0.99, 1+1e-3]; "
        "GateFidelity.process(V) = 1 and process(W) = (|tr W^dagger V|^2 + d)/(d(d+1)) (1e-8) for generated targets "
        "W; choi_from_unitary(V) equals the independent definition sum |i><j| (x) V|i><j|V^dagger. Non-trivial = V "
        "neither real nor symmetric up to a phase; distinct = case JSON."
        " Base circuits may carry directly declared heralds at arbitrary positions; gate-fidelity targets include unitaries 1-20 mrad away from V.")
ASSUMPTIONS = [
    "MLE 'fidelity one' is read at the property's own 0.99 (optimiser stopping tolerance)",
    "a post-selected entangling gate is only followed by local gates on its qubits",
]


@st.composite
def proc_case(draw, n, mle=True):
    kind = draw(st.integers(0, 3))
    if kind == 0:
        prog = draw(qubits.clifford_program(n, max_gates=5))
    elif n == 2 and kind == 1:
        prog = draw(qubits.entangling_program(2, max_heralded=1))
    else:
        prog = draw(qubits.qubit_program(n, max_gates=4 if n == 1 else 5, max_heralded=1, three=False))
    wk = draw(st.sampled_from(["haar", "near", "perm", "same", "close", "close"]))
    if draw(st.integers(0, 3)) == 0:
        # heralds declared directly on the base circuit: before / after the register or at arbitrary positions, also
        # between the two rails of a qubit (as in C15)
        prog = dict(prog)
        if draw(st.booleans()):
            prog["pad"] = draw(st.sampled_from([[1, 0], [0, 1], [1, 1], [2, 0], [1, 1], [1, 2]]))
            if min(prog["pad"]) >= 1 and draw(st.booleans()):
                prog["cross"] = True       # first and last mode heralded crosswise, with different photon numbers
        else:
            k = draw(st.integers(1, 2))
            prog["hpos"] = sorted(draw(st.lists(st.integers(0, 2 * n + k - 1), unique=True, min_size=k, max_size=k)))
    return {"prog": prog, "target": [wk, draw(st.integers(0, 10 ** 6))], "mle": mle,
            "ulp_seed": draw(st.one_of(st.none(), st.integers(0, 10 ** 6))),
            "scale_seed": draw(st.one_of(st.none(), st.integers(0, 10 ** 6))),
            "n_args": draw(st.sampled_from([0, 0, 1, 2])), "args_given": draw(st.booleans())}


def independent_choi(V):
    d = V.shape[0]
    out = np.zeros((d * d, d * d), dtype=complex)
    for i in range(d):
        for j in range(d):
            eij = np.zeros((d, d), dtype=complex)
            eij[i, j] = 1
            out += np.kron(eij, V @ eij @ V.conj().T)
    return out


def run_proc(case):
    from lightworks import tomography
    prog = case["prog"]
    n = prog["n"]
    d = 2 ** n
    V = qubits.reference_unitary(prog)
    base = call("build", qubits.build_real, prog)
    snap = snapshot(base)

    extra = [("arg", k) for k in range(case.get("n_args", 0))]

    def make_experiment(scaled):
        def experiment(circuits, inputs, *args):
            if list(args) != extra or any(a is not b for a, b in zip(args, extra)):
                raise Violation(f"experiment callback received extra arguments {args!r}, experiment_args was "
                                f"{extra!r}", key="experiment-args")
            us = case.get("ulp_seed")
            ss = case.get("scale_seed") if scaled else None
            return [qubits.exact_counts(c, n, list(s), qubits.ulp_choice(us, i), scale=qubits.scale_choice(ss, i))
                    for i, (c, s) in enumerate(zip(circuits, inputs, strict=True))]
        return experiment
    # linear inversion and gate fidelity also get totals that differ from circuit to circuit (each measurement is
    # normalised by its own total); the MLE optimiser is fed plain weights, its own stopping rule is read at 0.99
    experiment = make_experiment(False)
    experiment_scaled = make_experiment(True)
    kw_args = {"experiment_args": extra} if extra or case.get("args_given") else {}

    choi_ref = call("choi_from_unitary", tomography.choi_from_unitary, V)
    if np.abs(choi_ref - independent_choi(V)).max() > 1e-10:
        raise Violation("choi_from_unitary(V) differs from sum |i><j| (x) V|i><j|V^dagger",
                        key="choi-from-unitary-definition")
    li = call("LIProcessTomography", tomography.LIProcessTomography, n, base, experiment_scaled, **kw_args)
    choi = call("LI process", li.process)
    if not np.array_equal(np.asarray(li.choi), np.asarray(choi)):
        raise Violation("the choi attribute differs from the matrix process() returned", key="choi-attribute")
    err = np.abs(choi - choi_ref).max()
    if err > 1e-8:
        raise Violation(f"LI Choi matrix differs from choi_from_unitary(V) by {err:.4g}", key="li-choi-mismatch")
    f = call("LI fidelity", li.fidelity, choi_ref)
    if abs(f - 1) > 1e-6:
        raise Violation(f"LI fidelity = {f}", key="li-fidelity")
    labels = [f"n={n}"]
    if case["mle"]:
        mle = call("MLEProcessTomography", tomography.MLEProcessTomography, n, base, experiment, **kw_args)
        cm = call("MLE process", mle.process)
        if np.abs(cm - cm.conj().T).max() > 1e-8:
            raise Violation("MLE Choi matrix not Hermitian", key="mle-not-hermitian")
        ev = np.linalg.eigvalsh((cm + cm.conj().T) / 2)
        if ev.min() < -1e-6:
            raise Violation(f"MLE Choi matrix has eigenvalue {ev.min():.3g}", key="mle-not-positive")
        pt = np.trace(cm.reshape(d, d, d, d), axis1=1, axis2=3)      # trace over the output factor
        if np.abs(pt - np.eye(d)).max() > 1e-3:
            raise Violation(f"MLE Choi matrix not trace preserving (deviation {np.abs(pt - np.eye(d)).max():.3g})",
                            key="mle-not-trace-preserving")
        pf = tomography.process_fidelity(cm, choi_ref)
        rf = call("MLE fidelity", mle.fidelity, choi_ref)
        if not (0.99 <= pf <= 1 + 1e-3) or not (0.99 <= rf <= 1 + 1e-3):
            raise Violation(f"MLE fidelity to choi_from_unitary(V): {pf:.5f} (reported {rf:.5f})", key="mle-fidelity")
        labels.append("mle")
        if n == 1 or case["target"][1] % 3 == 0:
            # a result that was handed out stays what it was when another maximum-likelihood run happens afterwards
            keep = np.array(cm, copy=True)
            mle2 = call("MLEProcessTomography (second object)", tomography.MLEProcessTomography, n, base, experiment,
                        **kw_args)
            call("MLE process (second object)", mle2.process)
            if not np.array_equal(np.asarray(cm), keep) or not np.array_equal(np.asarray(mle.choi), keep):
                raise Violation("the Choi matrix returned by an earlier MLE run changed when a second MLE run was made",
                                key="mle-result-aliased")
            rf2 = call("MLE fidelity (first object, after the second run)", mle.fidelity, choi_ref)
            if abs(rf2 - rf) > 1e-12:
                raise Violation(f"fidelity reported by the first MLE object changed from {rf} to {rf2} after a second "
                                f"run", key="mle-result-aliased")
            labels.append("second-mle-run")
    gf = call("GateFidelity", tomography.GateFidelity, n, base, experiment_scaled, **kw_args)
    f1 = call("GateFidelity.process(V)", gf.process, V)
    if abs(f1 - 1) > 1e-8:
        raise Violation(f"gate fidelity against V itself = {f1}", key="gate-fidelity-self")
    wk, ws = case["target"]
    if wk == "haar":
        W = qubits.make_unitary("haar", d, ws)
    elif wk == "near":
        W = qubits.make_unitary("near6", d, ws) @ V
    elif wk == "perm":
        W = qubits.make_unitary("permphase", d, ws)
    elif wk == "close":
        # a target a few milliradians away from V: the formula value differs from one in the sixth to fourth decimal
        eps = [1e-3, 3e-3, 8e-3, 2e-2][ws % 4]
        ph_ = np.ones(d, dtype=complex)
        ph_[ws % d] = np.exp(1j * eps)
        W = np.diag(ph_) @ V
    else:
        W = np.exp(0.3j) * V
    f2 = call("GateFidelity.process(W)", gf.process, W)
    want = (abs(np.trace(W.conj().T @ V)) ** 2 + d) / (d * (d + 1))
    if abs(f2 - want) > 1e-8:
        raise Violation(f"gate fidelity against another target = {f2:.10g}, average gate fidelity formula "
                        f"{want:.10g}", key="gate-fidelity-formula")
    if snapshot(base) != snap:
        raise Violation("tomography changed its base circuit", key="base-circuit-modified")
    if case["target"][1] % 2 == 0:
        # the base circuit is extended in place; the same tomography objects, run again, describe the new circuit
        import lightworks as lw
        W2 = qubits.make_unitary("haar", 2, case["target"][1] + 17)
        qubits.add_on_qubit(base, prog, 0, lw.Unitary(W2))
        # the extra callback arguments change as well before the second run: the supplied list is extended in place,
        # or (if none was supplied) the public attribute is assigned
        extra.append(("arg", "added-before-the-second-run"))
        for obj in (li, gf):
            if obj.experiment_args is not extra:
                obj.experiment_args = extra
        V2 = qubits.on_qubit(n, 0, W2) @ V
        ref2 = call("choi_from_unitary", tomography.choi_from_unitary, V2)
        choi2 = call("LI process (after extending the base circuit)", li.process)
        e2 = np.abs(choi2 - ref2).max()
        if e2 > 1e-8:
            raise Violation(f"second LI run after the base circuit was extended: Choi matrix differs from "
                            f"choi_from_unitary(new V) by {e2:.4g}", key="li-stale-after-edit")
        f3 = call("GateFidelity.process(new V) after extending the base circuit", gf.process, V2)
        if abs(f3 - 1) > 1e-8:
            raise Violation(f"gate fidelity against the extended circuit's own unitary = {f3}",
                            key="gate-fidelity-stale-after-edit")
        labels.append("re-run-after-edit")
    ph = V / (V.flat[np.argmax(np.abs(V))] / abs(V.flat[np.argmax(np.abs(V))]))
    real = np.abs(np.imag(ph)).max() < 1e-9
    sym = np.abs(V - V.T).max() < 1e-9
    herm = np.abs(ph - ph.conj().T).max() < 1e-9
    if not real:
        labels.append("complex")
    if not sym:
        labels.append("non-symmetric")
    if not herm:
        labels.append("non-hermitian")
    if qubits.herald_photons(prog):
        labels.append("heralded-gate")
    if "pad" in prog or "hpos" in prog:
        labels.append("heralds-declared-on-base-circuit")
    labels.append("target:" + wk)
    return {"nontrivial": (not real) and (not sym), "labels": labels}


def subs(tier):
    q = tier == "quick"
    return [
        Sub("one-qubit", run_proc, strategy=proc_case(1), examples=40 if q else 400),
        Sub("two-qubit", run_proc, strategy=proc_case(2), examples=8 if q else 100),
        Sub("two-qubit-li-gf", run_proc, strategy=proc_case(2, mle=False), examples=12 if q else 160),
    ]
