"""C09 - circuit rewrites preserve the transformation."""
import numpy as np
from hypothesis import strategies as st

from vlib import gen
from vlib.build import build_real, snapshot, snapshot_diff
from vlib.harness import Sub, Violation, call

PROPERTY = "C09"
RULE = ("Programs from the full generator (components, loss, barriers, unitary blocks, plain and heralded groups, "
        "nested additions, Parameters in any numeric slot) and a swap-heavy generator (half the operations are "
        "mode swaps - exchanges, random permutations, products of two disjoint cycles - with blockers of every kind "
        "between them); a generated sequence of 1-4 rewrites from "
        "{unpack_groups, compress_mode_swaps, remove_non_adjacent_bs, copy, copy(freeze_parameters=True)} is "
        "applied to the circuit while an untouched copy is kept. After every rewrite: U_full (1e-9), heralds, "
        "input size, mode count equal those before; post-conditions (no group / no non-adjacent beam splitter at "
        "any depth / component count not grown); the untouched copy still has its original snapshot; editing "
        "either object afterwards leaves the other unchanged. Non-trivial = >= 2 swaps separated by another "
        "component, or a non-adjacent beam splitter, or a heralded group; distinct = case JSON.")
ASSUMPTIONS = ["U_full compared at 1e-9 absolute", "Parameter objects are shared between copies by design; "
               "frozen copies are checked for independence from later parameter updates"]
TOL = 1e-9
REWRITES = ["unpack", "compress", "nonadj", "copy", "freeze"]


def observable(c):
    h = c.heralds
    return (c.n_modes, c.input_modes, tuple(sorted(h["input"].items())),
            tuple(sorted(h["output"].items())))


def spec_walk(spec):
    from lightworks.sdk.circuit.components import Group
    for s in spec:
        yield s
        if isinstance(s, Group):
            yield from spec_walk(s.circuit_spec)


def make_params(values):
    import lightworks as lw
    # labels are free text: several distinct parameters may well carry the same one
    return [lw.Parameter(v, label=[None, "a", "a", "phi"][i % 4]) for i, v in enumerate(values)]


def run_rewrite(case):
    from lightworks.sdk.circuit.components import BeamSplitter, Group
    prog, values = case["prog"], case["values"]
    params = make_params(values)
    c = call("build", build_real, prog, params)
    U0 = call("U_full", lambda: c.U_full).copy()
    obs0 = observable(c)
    keep = c.copy()                  # an untouched copy taken before any rewrite
    keep_snap = snapshot(keep)
    cur = c
    labels = set()
    for rw in case["seq"]:
        before_len = len(cur._get_circuit_spec())
        if rw == "unpack":
            call("unpack_groups", cur.unpack_groups)
        elif rw == "compress":
            call("compress_mode_swaps", cur.compress_mode_swaps)
        elif rw == "nonadj":
            call("remove_non_adjacent_bs", cur.remove_non_adjacent_bs)
        elif rw == "copy":
            cur = call("copy", cur.copy)
        elif rw == "freeze":
            cur = call("copy(freeze)", cur.copy, freeze_parameters=True)
        U1 = call(f"U_full after {rw}", lambda: cur.U_full)
        if U1.shape != U0.shape or not np.abs(U1 - U0).max(initial=0.0) <= TOL:
            d = "shape" if U1.shape != U0.shape else f"{np.abs(U1 - U0).max():.3g}"
            raise Violation(f"{rw} changed the full unitary ({d})", key=f"unitary-changed:{rw}")
        if observable(cur) != obs0:
            raise Violation(f"{rw} changed heralds / input size / mode count: {observable(cur)} vs {obs0}",
                            key=f"heralds-changed:{rw}")
        spec = cur._get_circuit_spec()
        if rw == "unpack" and any(isinstance(s, Group) for s in spec_walk(spec)):
            raise Violation("a group remains after unpack_groups", key="group-remains")
        if rw == "nonadj":
            for s in spec_walk(spec):
                if isinstance(s, BeamSplitter) and abs(s.mode_1 - s.mode_2) != 1:
                    raise Violation(f"beam splitter on modes {s.mode_1},{s.mode_2} remains after "
                                    f"remove_non_adjacent_bs", key="non-adjacent-bs-remains")
        if rw == "compress" and len(spec) > before_len:
            raise Violation(f"compress_mode_swaps grew the circuit from {before_len} to {len(spec)} components",
                            key="compress-grew")
        if rw == "freeze" and cur.get_all_params():
            raise Violation("frozen copy still lists parameters", key="frozen-lists-params")
        s_now = snapshot(keep)
        if s_now != keep_snap:
            raise Violation(f"{rw} on one object changed an earlier copy of it ({snapshot_diff(keep_snap, s_now)})",
                            key=f"shared-structure:{rw}")
    # parameters: the original (and every unfrozen descendant) stays live, frozen copies keep their values
    if params:
        frozen = "freeze" in case["seq"]
        fsnap = snapshot(cur)
        new_vals = [0.123 if k == "unit" else 2.5 for k in case["kinds"]]
        for p, v in zip(params, new_vals):
            p.set(v)
        ref = build_real(prog, new_vals)
        n_ = c.n_modes
        for name, obj in (("original", c if "copy" in case["seq"] or frozen else None), ("earlier copy", keep),
                          ("rewritten object", None if frozen else cur)):
            if obj is None:
                continue
            Uo = call(f"U of {name}", lambda o=obj: o.U)
            if Uo.shape != ref.U.shape or not np.abs(Uo - ref.U).max(initial=0.0) <= TOL:
                raise Violation(f"after {case['seq']} the {name} no longer follows its Parameter objects",
                                key="parameters-detached")
        if frozen:
            if snapshot(cur) != fsnap:
                raise Violation("a frozen copy changed when the original's parameters were updated",
                                key="frozen-follows-params")
            labels.add("frozen-after-update-checked")
        labels.add("live-after-update-checked")
    # independence: edit the rewritten object, the kept copy must not move, and vice versa
    n_user = cur.n_modes - len(cur._internal_modes)
    if n_user >= 1:
        cur_snap = snapshot(cur)
        call("edit copy", keep.ps, 0, 0.37)
        if snapshot(cur) != cur_snap:
            raise Violation("editing the original changed the rewritten object", key="shared-structure:edit")
        keep_snap2 = snapshot(keep)
        call("edit rewritten", cur.ps, n_user - 1, 1.23)
        if n_user >= 2:
            call("edit rewritten", cur.mode_swaps, {0: n_user - 1, n_user - 1: 0})
        if snapshot(keep) != keep_snap2:
            raise Violation("editing the rewritten object changed the original", key="shared-structure:edit")
    s = gen.program_stats(prog)
    swaps_sep = False
    kinds_seq = [op[0] for op in prog["ops"]]
    idx = [i for i, k in enumerate(kinds_seq) if k == "swaps"]
    if len(idx) >= 2 and any(b - a > 1 for a, b in zip(idx, idx[1:])):
        swaps_sep = True
        labels.add("separated-swaps")
    if s["nonadj_bs"]:
        labels.add("non-adjacent-bs")
    if s["heralded_adds"]:
        labels.add("heralded-group")
    if values:
        labels.add("parameters")
    for rw in case["seq"]:
        labels.add("rw:" + rw)
    return {"nontrivial": bool(swaps_sep or s["nonadj_bs"] or s["heralded_adds"]), "labels": sorted(labels)}


def cases(progs):
    return st.fixed_dictionaries({
        "pp": gen.parametrized(progs, max_params=3),
        "seq": st.lists(st.sampled_from(REWRITES), min_size=1, max_size=4),
    }).map(lambda d: {"prog": d["pp"]["prog"], "values": d["pp"]["values"], "kinds": d["pp"]["kinds"],
                      "seq": d["seq"]})


def subs(tier):
    q = tier == "quick"
    full = st.one_of(gen.program(min_n=2, max_n=6, depth=2, max_ops=8),
                     gen.addition_tree(max_n=5, max_adds=3))
    return [
        Sub("rewrites", run_rewrite, strategy=cases(full), examples=150 if q else 8000),
        Sub("swap-heavy", run_rewrite, strategy=cases(gen.swap_heavy_program()), examples=150 if q else 8000),
    ]
