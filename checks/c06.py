"""C06 - imperfect-source model: normalised mixture of distinguishable photon groups."""
import math

import numpy as np
from hypothesis import strategies as st

from vlib import gen
from vlib.build import build_real
from vlib.harness import Sub, Violation, call
from vlib.refmodel import (marginal_distribution, photon_outcomes, purity_p1, source_mixture)

PROPERTY = "C06"
RULE = ("Source parameters drawn with boundary weighting (brightness [0,1] incl. 0 and 1, purity (0.5,1] incl. 1 "
        "and 0.5+eps, indistinguishability [0,1] incl. 0 and 1, optional probability threshold); inputs with 1-3(4) "
        "photons, bunched / gaps / herald photons; lossy and lossless 2-5 mode circuits; both backends. Oracle: "
        "own per-photon six-outcome mixture, groups convolved, exact distributions from own permanent; closed "
        "forms for g2 and HOM visibility; reductions for perfect and classical settings. Non-trivial = >= 2 "
        "photons and (at least two of the three parameters strictly inside their range, or a lossy circuit with brightness strictly inside (0,1)); distinct = case JSON."
        " Also: 5-6 photons over three or more occupied modes with all three imperfections present (thousands of intermediate emission configurations).")
ASSUMPTIONS = [
    "tolerance n_patterns*1e-9*(number of emission configurations) + 1e-8",
    "check_number is only required to be >= 1, <= 6^n and 1 for a perfect source",
]

bright = st.one_of(st.sampled_from([1.0, 1.0, 0.0, 0.5]), st.floats(0, 1, allow_nan=False))
purity = st.one_of(st.sampled_from([1.0, 1.0, 0.5000001, 0.75]),
                   st.floats(0.5, 1, exclude_min=True, allow_nan=False))
indist = st.one_of(st.sampled_from([1.0, 1.0, 0.0, 0.5]), st.floats(0, 1, allow_nan=False))


@st.composite
def source_case(draw, big=False):
    kind = draw(st.integers(0, 2))
    if kind == 0:
        prog = draw(gen.flat_program(min_n=2, max_n=5, max_ops=6))
    elif kind == 1:
        prog = draw(gen.flat_program(min_n=2, max_n=4, max_ops=6, lossy=False))
    else:
        prog = draw(gen.addition_tree(max_n=3, max_adds=2))
    prog, _ = gen.limit_loss(prog, 3)
    prog = gen.cap_herald_photons(prog, cap=600)
    nv = prog["n"] - gen.count_heralds(prog)
    nph = draw(st.integers(1, 4 if big else 3))
    _, _, hp = gen.dims(prog)
    nph = max(0, min(nph, (4 if big else 3) - hp))
    vin = draw(gen.fock_state(nv, nph))
    thr = draw(st.sampled_from([0, 0, 0, 1e-3, 0.05]))
    pur = draw(purity)
    # cost bound by construction: with purity < 1 every photon may come with a second one, so the exact distributions
    # live on up to 2 x (input + herald photons) photons; where that space is large the noise photons are switched off
    modes, n_loss, _ = gen.dims(prog)
    if pur < 1 and math.comb(modes + n_loss + 2 * (nph + hp) - 1, 2 * (nph + hp)) > 3000:
        pur = 1.0
    return {"prog": prog, "input": vin, "brightness": draw(bright), "purity": pur,
            "indist": draw(indist), "threshold": thr,
            # the Source object may have a history: an assignment it refused before it is used
            "refused": draw(st.sampled_from([None, None, None, ["indistinguishability", 1.5], ["purity", 0.2],
                                             ["brightness", -0.1], ["indistinguishability", True],
                                             ["probability_threshold", 2]])),
            "backend": draw(st.sampled_from(["permanent", "slos"]))}


@st.composite
def brightness_case(draw):
    """Brightness-only source (purity = indistinguishability = 1) on lossy circuits:
    the State-keyed fast path of the distribution calculation."""
    prog = draw(gen.flat_program(min_n=2, max_n=4, max_ops=5))
    prog["ops"].insert(draw(st.integers(0, len(prog["ops"]))),
                       ["loss", draw(st.integers(0, prog["n"] - 1)), draw(st.floats(0.05, 0.95))])
    prog, _ = gen.limit_loss(prog, 3)
    nph = draw(st.integers(1, 3))
    vin = draw(gen.fock_state(prog["n"], nph))
    return {"prog": prog, "input": vin, "brightness": draw(st.floats(0.05, 0.95)), "purity": 1.0,
            "indist": 1.0, "threshold": 0, "backend": draw(st.sampled_from(["permanent", "slos"]))}


@st.composite
def many_photon_case(draw):
    """5-6 photons spread over three (or more) occupied modes with all three imperfections present: the emitted-input
    statistics run to thousands of intermediate entries (6 outcomes per photon) before equivalent ones are merged."""
    n = draw(st.integers(3, 4))
    prog = draw(gen.flat_program(min_n=n, max_n=n, max_ops=5, lossy=False))
    nph = draw(st.integers(5, 6 if n == 3 else 5))
    occ = [1] * min(n, 3) + [0] * (n - min(n, 3))
    for _ in range(nph - sum(occ)):
        occ[draw(st.integers(0, n - 1))] += 1
    occ = draw(st.permutations(occ))
    return {"prog": prog, "input": list(occ), "brightness": draw(st.sampled_from([0.5, 0.8, 0.95, 1.0])),
            "purity": draw(st.sampled_from([0.6, 0.9, 0.99])), "indist": draw(st.sampled_from([0.3, 0.7, 0.95])),
            "threshold": 0, "backend": draw(st.sampled_from(["permanent", "slos"]))}


@st.composite
def tie_case(draw):
    """probability_threshold exactly equal to the probability of one of the possible inputs. With brightness a
    binary fraction and purity = indistinguishability = 1 every input probability is a dyadic rational, computed
    without rounding by any order of multiplications and additions, so "equal" is exact on both sides; the
    documented rule removes inputs *below* the threshold."""
    import math as _m
    prog = draw(gen.flat_program(min_n=2, max_n=3, max_ops=4))
    prog, _ = gen.limit_loss(prog, 2)
    n = prog["n"]
    occ = draw(st.lists(st.sampled_from([0, 1, 1, 2, 3]), min_size=n, max_size=n))
    if sum(occ) == 0:
        occ[0] = 2
    while sum(occ) > 3:
        occ[max(range(n), key=lambda j: occ[j])] -= 1
    b = draw(st.sampled_from([0.5, 0.25, 0.75]))
    # probabilities of the possible emitted inputs (k_i of n_i photons emitted per mode)
    probs = set()
    import itertools as _it
    for ks in _it.product(*[range(x + 1) for x in occ]):
        q = 1.0
        for k, x in zip(ks, occ):
            q *= _m.comb(x, k) * b ** k * (1 - b) ** (x - k)
        probs.add(q)
    thr = draw(st.sampled_from(sorted(probs)))
    return {"prog": prog, "input": occ, "brightness": b, "purity": 1.0, "indist": 1.0, "threshold": thr,
            "backend": draw(st.sampled_from(["permanent", "slos"])), "exact_tie": True}


def full_input(c, vin):
    h = c.heralds["input"]
    it = iter(vin)
    return [h[m] if m in h else next(it) for m in range(c.n_modes)]


def run_source(case):
    import lightworks as lw
    from lightworks import emulator
    c = call("build", build_real, case["prog"])
    vin = list(case["input"])
    b, p, ind, thr = case["brightness"], case["purity"], case["indist"], case["threshold"]
    src = call("Source()", emulator.Source, purity=p, brightness=b, indistinguishability=ind,
               probability_threshold=thr)
    if case.get("refused"):
        try:
            setattr(src, case["refused"][0], case["refused"][1])
        except Exception:  # noqa: BLE001, S110   (refused, as it should be; the source is what it was)
            pass
        else:
            setattr(src, case["refused"][0], {"indistinguishability": ind, "purity": p, "brightness": b,
                                              "probability_threshold": thr}[case["refused"][0]])
    full = full_input(c, vin)
    nph = sum(full)
    U = c.U_full
    n = c.n_modes
    # if the threshold removes every emission configuration the model is undefined
    outcomes = [q for _, q in photon_outcomes(b, p, ind) if q > 0]
    labels = []
    if thr:
        labels.append("threshold")
        # configurations within 1e-12 of the threshold make the retained set ambiguous: skip those
        import itertools
        probs = [math.prod(cmb) for cmb in itertools.product(outcomes, repeat=nph)] if nph <= 4 else []
        if any(abs(q - thr) < 1e-9 for q in probs) and not case.get("exact_tie"):
            return {"nontrivial": False, "labels": ["threshold-borderline-skipped"]}
        if case.get("exact_tie"):
            labels.append("threshold-equals-an-input-probability")
    try:
        ref = source_mixture(U, n, full, b, p, ind, thr)
    except ZeroDivisionError:
        return {"nontrivial": False, "labels": ["threshold-removes-everything"]}
    smp = emulator.Sampler(c, lw.State(list(vin)), source=src, backend=case["backend"])
    d = call("probability_distribution", lambda: smp.probability_distribution)
    d = {tuple(k): v for k, v in d.items()}
    tol = max(1, len(ref)) * 1e-9 * max(1, 6 ** min(nph, 3)) + 1e-8   # per pattern and emission configuration
    tot = 0.0
    for k, v in d.items():
        tot += v
        if not v >= -1e-15:
            raise Violation(f"negative probability {v} for {k}", key="negative-probability")
        r = ref.get(k, 0.0)
        if not abs(v - r) <= tol:
            raise Violation(f"P{k} = {v:.10g}, per-photon mixture gives {r:.10g} "
                            f"(brightness={b}, purity={p}, indist={ind}, thr={thr})", key="mixture-mismatch")
    for k, r in ref.items():
        if r > tol and k not in d:
            raise Violation(f"pattern {k} with mixture probability {r:.6g} missing", key="pattern-missing")
    if not abs(tot - 1) <= tol:
        raise Violation(f"output distribution sums to {tot:.10g}", key="output-not-normalised")
    # input statistics normalised
    stats = call("_build_statistics", src._build_statistics, lw.State(list(full)))
    st_tot = sum(stats.values())
    if not abs(st_tot - 1) <= 1e-9:
        raise Violation(f"input statistics sum to {st_tot:.12g}", key="input-stats-not-normalised")
    cn = call("check_number", src.check_number, lw.State(list(full)))
    if cn != len(stats) or cn < 1 or cn > 6 ** max(nph, 0) and nph > 0:
        raise Violation(f"check_number={cn} inconsistent (len stats {len(stats)})", key="check-number")
    if b == 1 and p == 1 and ind == 1:
        labels.append("perfect")
        if cn != 1:
            raise Violation(f"perfect source reports {cn} input states", key="perfect-check-number")
        ideal = marginal_distribution(U, n, full + [0] * (U.shape[0] - n))
        for k, r in ideal.items():
            if not abs(d.get(k, 0.0) - r) <= tol:
                raise Violation(f"perfect source differs from ideal distribution at {k}", key="perfect-not-ideal")
    inside = sum([0 < b < 1, 0.5 < p < 1, 0 < ind < 1])
    s = gen.program_stats(case["prog"])
    if s["loss"]:
        labels.append("lossy")
    if any(x >= 2 for x in full):
        labels.append("bunched")
    if sum(c.heralds["input"].values()):
        labels.append("herald-photons")
    if b < 1 and p == 1 and ind == 1:
        labels.append("brightness-only-fast-path")
    return {"nontrivial": nph >= 2 and (inside >= 2 or (s["loss"] > 0 and 0 < b < 1)), "labels": labels}


# ------------------------------------------------------------ closed forms
@st.composite
def closed_case(draw):
    return {"brightness": draw(bright), "purity": draw(purity), "indist": draw(indist),
            "photons": draw(st.integers(1, 3)), "modes": draw(st.integers(1, 3)),
            "seed": draw(st.integers(0, 10 ** 6))}


def run_closed(case):
    import lightworks as lw
    from lightworks import emulator
    from vlib.refmodel import haar_unitary
    b, p, ind = case["brightness"], case["purity"], case["indist"]
    labels = []
    # (1) g2 of the emitted photon-number statistics of one requested photon
    src = emulator.Source(purity=p, brightness=b, indistinguishability=ind)
    stats = call("_build_statistics", src._build_statistics, lw.State([1]))
    pn = {}
    for s_, q in stats.items():
        k = len(s_[0]) if not isinstance(s_, lw.State) else s_[0]
        pn[k] = pn.get(k, 0.0) + q
    tot = sum(pn.values())
    if not abs(tot - 1) <= 1e-9:
        raise Violation(f"single-photon statistics sum to {tot}", key="input-stats-not-normalised")
    mean = sum(k * q for k, q in pn.items())
    if mean > 1e-6:
        g2 = sum(k * (k - 1) * q for k, q in pn.items()) / mean ** 2
        if not abs(g2 - (1 - p)) <= 1e-7:
            raise Violation(f"g2 = {g2:.10g}, expected 1 - purity = {1 - p:.10g} (brightness {b})", key="g2")
        labels.append("g2-checked")
    # (2) HOM visibility: two photons on a 50:50 beam splitter, purity = brightness = 1
    c = lw.Circuit(2)
    c.bs(0)
    for backend in ("permanent", "slos"):
        smp = emulator.Sampler(c, lw.State([1, 1]), backend=backend,
                               source=emulator.Source(indistinguishability=ind))
        d = {tuple(k): v for k, v in smp.probability_distribution.items()}
        coinc = d.get((1, 1), 0.0)
        if not abs(coinc - (1 - ind) / 2) <= 1e-8:
            raise Violation(f"HOM coincidence {coinc:.10g}, expected (1-I)/2 = {(1 - ind) / 2:.10g}", key="hom")
    labels.append("hom-checked")
    # (3) classical particles: indistinguishability 0 -> product of single-photon distributions
    m, k = max(2, case["modes"] + 1), case["photons"]
    U = haar_unitary(m, case["seed"])
    cu = lw.Unitary(U)
    vin = [1 if i < k else 0 for i in range(m)]
    if k <= m:
        smp = emulator.Sampler(cu, lw.State(vin), source=emulator.Source(indistinguishability=0))
        d = {tuple(kk): v for kk, v in smp.probability_distribution.items()}
        from vlib.refmodel import convolve
        ref = None
        for i in range(k):
            single = {tuple(1 if j == o else 0 for j in range(m)): abs(U[o, i]) ** 2 for o in range(m)}
            ref = single if ref is None else convolve(ref, single)
        for kk, r in ref.items():
            if not abs(d.get(kk, 0.0) - r) <= 1e-7:
                raise Violation(f"indistinguishability 0: P{kk} = {d.get(kk, 0.0):.10g}, classical particles "
                                f"give {r:.10g}", key="classical-limit")
        labels.append("classical-checked")
    # (4) default Source() equals explicit (1, 1, 1)
    s0 = emulator.Sampler(cu, lw.State(vin)).probability_distribution
    s1 = emulator.Sampler(cu, lw.State(vin), source=emulator.Source(1, 1, 1)).probability_distribution
    if {tuple(a): round(v, 12) for a, v in s0.items()} != {tuple(a): round(v, 12) for a, v in s1.items()}:
        raise Violation("Source() and Source(1,1,1) give different distributions", key="perfect-not-ideal")
    return {"nontrivial": True, "labels": labels}


def subs(tier):
    q = tier == "quick"
    return [
        Sub("mixture", run_source, strategy=source_case(big=not q), examples=60 if q else 800),
        Sub("brightness-only-lossy", run_source, strategy=brightness_case(), examples=30 if q else 400),
        Sub("threshold-ties", run_source, strategy=tie_case(), examples=30 if q else 600),
        Sub("many-photons", run_source, strategy=many_photon_case(), examples=1 if q else 40),
        Sub("closed-forms", run_closed, strategy=closed_case(), examples=40 if q else 500),
    ]
