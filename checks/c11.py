"""C11 - results depend only on the current configuration, not on history."""
import random as pyrandom

import numpy as np
from hypothesis import strategies as st
from hypothesis.stateful import RuleBasedStateMachine, initialize, rule

from vlib import gen, postsel
from vlib.build import apply_real, build_real
from vlib.harness import call_with_timeout, MachineSpec, RecordingMixin, Sub, Violation, call, unexpected

PROPERTY = "C11"
RULE = ("Rule-based state machine holding one long-lived Sampler, QuickSampler and Analyzer. Reconfiguration "
        "rules: assign a new circuit (random / same unitary with a herald moved, added, removed or with another "
        "photon number / lossy variant), edit the assigned circuit in place (components, loss elements, heralds), "
        "set a circuit Parameter, assign the input state, replace the Source or mutate one of its attributes in "
        "place, switch backend, replace post-selection / photon_counting / detector, add a rule to the PostSelection "
        "object that was handed over earlier (also starting from an empty one). Read rules: "
        "probability_distribution, sample() with a seeded global RNG, sample_N_inputs / sample_N_outputs with a "
        "seed (both objects), analyze with and without an expected mapping. Oracle after every read: a freshly "
        "constructed object with the same settings returns the same distribution (1e-9), the identical seeded "
        "sample result, the identical sample() draw, an analysis result with equal values and exactly the same "
        "attributes, or raises the same exception type. Non-trivial = >= 2 reconfigurations of different kinds "
        "followed by a sampling call not preceded by a distribution read; distinct = distinct recorded history."
        " Also: in-place edits confined to the last modes of heralded circuits, 12-40 mode circuits, refused assignments followed by further use, and the caller editing the dictionary a distribution read returned.")
ASSUMPTIONS = [
    "only the reconfiguration kinds named in C11 are generated (attribute assignment, in-place mutation of "
    "circuit / parameters / source / detector, rules added to a PostSelection object after it was handed over)",
    "distribution comparison tolerance 1e-9 (sample_N_inputs may renormalise its cached distribution by the "
    "documented truncation error)",
]

small = st.one_of(gen.flat_program(min_n=2, max_n=4, max_ops=5),
                  gen.addition_tree(max_n=3, max_adds=2),
                  gen.program(min_n=2, max_n=4, depth=1, max_ops=4, max_herald_photons=1))
SRC = st.fixed_dictionaries({
    "brightness": st.sampled_from([1, 1, 0.8, 0.5]),
    "purity": st.sampled_from([1, 1, 0.9, 0.75]),
    "indistinguishability": st.sampled_from([1, 1, 0.7, 0.0]),
    "probability_threshold": st.sampled_from([0, 0, 1e-3]),
})
DET = st.fixed_dictionaries({"efficiency": st.sampled_from([1, 1, 0.7]), "p_dark": st.sampled_from([0, 0, 0.1]),
                             "photon_counting": st.booleans()})


def same_dist(a, b, tol=1e-9):
    a = {tuple(k): v for k, v in a.items()}
    b = {tuple(k): v for k, v in b.items()}
    for k in set(a) | set(b):
        if abs(a.get(k, 0.0) - b.get(k, 0.0)) > tol:
            return f"P{k}: long-lived {a.get(k, 0.0):.10g} vs fresh {b.get(k, 0.0):.10g}"
    return None


class C11Machine(RecordingMixin, RuleBasedStateMachine):
    def __init__(self):
        super().__init__()
        self.init_recording()
        import lightworks as lw
        lw.settings.sampler_probability_threshold = 1e-9
        self.ready = False
        self.kinds_since_read = set()
        self.dist_read_since_change = True

    # ------------------------------------------------------------ plumbing
    def setup(self, prog):
        import lightworks as lw
        from lightworks import emulator
        prog, _ = gen.limit_loss(prog, 2)
        self.params = [lw.Parameter(0.3), lw.Parameter(0.6)]
        self.prog = prog
        self.circ = build_real(prog)
        self.src = {"brightness": 1, "purity": 1, "indistinguishability": 1, "probability_threshold": 0}
        self.det = {"efficiency": 1, "p_dark": 0, "photon_counting": True}
        self.backend = "permanent"
        self.ps = None
        self.pc = True
        self.state = [0] * self.circ.input_modes
        if self.state:
            self.state[0] = 1
        self.sampler = emulator.Sampler(self.circ, lw.State(list(self.state)))
        self.quick = emulator.QuickSampler(self.circ, lw.State(list(self.state)))
        self.analyzer = emulator.Analyzer(self.circ)
        self.ready = True

    def changed(self, kind):
        self.kinds_since_read.add(kind)
        self.dist_read_since_change = False
        self.info_labels.add("change:" + kind)

    def fit_state(self):
        import lightworks as lw
        n = self.circ.input_modes
        s = (list(self.state) + [0] * n)[:n]
        self.state = s
        st_ = lw.State(list(s))
        self.sampler.input_state = st_
        self.quick.input_state = lw.State(list(s))

    def fresh_sampler(self):
        import lightworks as lw
        from lightworks import emulator
        return emulator.Sampler(self.circ, lw.State(list(self.state)), source=emulator.Source(**self.src),
                                detector=emulator.Detector(**self.det), backend=self.backend)

    def fresh_quick(self):
        import lightworks as lw
        from lightworks import emulator
        return emulator.QuickSampler(self.circ, lw.State(list(self.state)), photon_counting=self.pc,
                                     post_select=postsel.to_real(self.ps))


    def too_big(self):
        c = self.circ
        try:
            d = c.U_full.shape[0]
        except Exception:  # noqa: BLE001
            return True
        ph = sum(self.state) + sum(c.heralds["input"].values())
        full_source = self.src["purity"] != 1 or self.src["indistinguishability"] != 1
        if full_source and (ph > 2 or d > 7):
            return True
        if not full_source and ph <= 1 and d <= 64 and c.input_modes > 0:
            return False           # wide circuits with a single photon stay cheap (r_wide_read_edit_read)
        return d > 9 or ph > 3 or c.input_modes == 0

    def compare(self, what, long_fn, fresh_fn, cmp):
        """Both must raise the same exception type, or give equal results."""
        try:
            # generated sizes keep every call far below a second; a long-lived object that does not come back (for
            # instance because a refused assignment left half of itself behind) is reported, not waited for
            a = call_with_timeout(what, 60, long_fn)
            ea = None
        except Violation:
            raise
        except Exception as e:  # noqa: BLE001
            a, ea = None, e
        try:
            b = fresh_fn()
            eb = None
        except Exception as e:  # noqa: BLE001
            b, eb = None, e
        if (ea is None) != (eb is None) or (ea is not None and type(ea) is not type(eb)):
            raise Violation(f"{what}: long-lived object {'raised ' + type(ea).__name__ + ': ' + str(ea) if ea else 'returned'}"
                            f", fresh object {'raised ' + type(eb).__name__ if eb else 'returned'}",
                            key=f"history-dependent-exception:{what.split('(')[0]}")
        if ea is None:
            msg = cmp(a, b)
            if msg:
                raise Violation(f"{what}: differs from a freshly created object with the same settings: {msg}",
                                key=f"history-dependent:{what.split('(')[0]}")
        if len(self.kinds_since_read) >= 2 and not self.dist_read_since_change and "sample" in what:
            self.nontrivial = True
        return ea is None

    # ---------------------------------------------------------------- steps
    def do_init(self, prog):
        self.setup(prog)

    def do_assign_circuit(self, prog, how, a, b, n):
        import lightworks as lw
        import copy
        if how == "random" or self.prog is None:
            prog, _ = gen.limit_loss(prog, 2)
            new = build_real(prog)
            self.prog = prog
            how = "random"
        else:
            # same components, different heralding (top-level heralds of the program are varied)
            np_ = copy.deepcopy(self.prog)
            hidx = [i for i, op in enumerate(np_["ops"]) if op[0] == "herald"]
            used_in = {np_["ops"][i][2] for i in hidx}
            used_out = {np_["ops"][i][2] if np_["ops"][i][3] is None else np_["ops"][i][3] for i in hidx}
            free = [m for m in range(np_["n"]) if m not in used_in and m not in used_out]
            if how == "move" and hidx and free:
                i = hidx[a % len(hidx)]
                np_["ops"][i] = ["herald", np_["ops"][i][1], free[b % len(free)], None]
            elif how == "photon" and hidx:
                i = hidx[a % len(hidx)]
                np_["ops"][i][1] = 0 if np_["ops"][i][1] else 1
            elif how == "add" and len(free) > 1:
                np_["ops"].append(["herald", n, free[a % len(free)], None])
            elif how == "remove" and hidx:
                del np_["ops"][hidx[a % len(hidx)]]
            else:
                return
            new = build_real(np_)
            self.prog = np_
        self.circ = new
        self.sampler.circuit = new
        self.quick.circuit = new
        self.analyzer.circuit = new
        self.fit_state()
        self.changed("circuit-" + how)

    def do_edit_circuit(self, op):
        from checks.c08 import remap_op, user_modes
        um = user_modes(self.circ)
        if um < 1:
            return
        op = remap_op(op, um)
        if op is None:
            return
        if self.circ.U_full.shape[0] - self.circ.n_modes >= 3 and op[0] in ("loss",) :
            return
        if op[0] in ("bs",):
            op[5] = 0 if self.circ.U_full.shape[0] - self.circ.n_modes >= 2 else op[5]
        if op[0] == "ps":
            op[3] = 0 if self.circ.U_full.shape[0] - self.circ.n_modes >= 2 else op[3]
        apply_real(self.circ, op)
        if self.prog is not None:
            self.prog = {"n": self.prog["n"], "ops": [*self.prog["ops"], op]}
        self.changed("edit-in-place")

    def do_edit_tail(self, op, j):
        """In-place edit confined to the last j user modes (where heralds of the top-level circuit usually sit)."""
        from checks.c08 import remap_op, user_modes
        um = user_modes(self.circ)
        j = max(1, min(j, um))
        if self.circ.U_full.shape[0] - self.circ.n_modes >= 3:
            return
        op = remap_op(op, j)
        if op is None:
            return
        off = um - j
        op = list(op)
        if op[0] == "bs":
            op[1] += off
            op[2] = None if op[2] is None else op[2] + off
        elif op[0] in ("ps", "loss", "unitary"):
            op[1] += off
        elif op[0] == "barrier":
            op[1] = None if op[1] is None else [m + off for m in op[1]]
        elif op[0] == "swaps":
            op[1] = [[a + off, b + off] for a, b in op[1]]
        apply_real(self.circ, op)
        if self.prog is not None:
            self.prog = {"n": self.prog["n"], "ops": [*self.prog["ops"], op]}
        self.changed("edit-in-place-tail")

    def do_wide_circuit(self, m, useed, at):
        """A dense interferometer on m modes with one photon: the compiled matrix has m*m entries (above a thousand
        for m >= 32), the distributions stay tiny."""
        prog = {"n": m, "ops": [["unitary", 0, "haar", m, useed]]}
        new = build_real(prog)
        self.prog = prog
        self.circ = new
        self.state = [1 if i == at % m else 0 for i in range(m)]
        self.sampler.circuit = new
        self.quick.circuit = new
        self.analyzer.circuit = new
        self.fit_state()
        self.changed("circuit-wide")

    def do_edit_at(self, pos, refl):
        from checks.c08 import user_modes
        um = user_modes(self.circ)
        if um < 2:
            return
        m = pos % (um - 1)
        op = ["bs", m, m + 1, refl, "Rx", 0]
        apply_real(self.circ, op)
        if self.prog is not None:
            self.prog = {"n": self.prog["n"], "ops": [*self.prog["ops"], op]}
        self.changed("edit-in-place-at")

    def do_edit_with_param(self, i, slot):
        """In-place edit that introduces a Parameter the circuit did not contain when it was assigned."""
        from checks.c08 import user_modes
        um = user_modes(self.circ)
        if um < 2 or self.circ.U_full.shape[0] - self.circ.n_modes >= 2:
            return
        p = self.params[i % 2]
        if slot == "reflectivity":
            if not 0 <= p.get() <= 1:
                p.set(0.5)
            self.circ.bs(0, 1, reflectivity=p)
        elif slot == "loss":
            if not 0 <= p.get() <= 1:
                p.set(0.5)
            self.circ.loss(um - 1, p)
        else:
            self.circ.bs(0, 1)
            self.circ.ps(0, p)
            self.circ.bs(0, 1)
        self.prog = None
        self.changed("edit-in-place-with-parameter")

    def do_quick_pred(self, kind, a):
        """QuickSampler / Analyzer post-selection given as a function; functions of one kind come from one factory
        (same code, different closure values)."""
        n = self.circ.input_modes
        if n < 1:
            return
        pred = {"max-le": ["max-le", 1 + a % 2], "mode-ne": ["mode-ne", a % n, (a // n) % 2],
                "total-in": ["total-in", [a % n], [(a // n) % 3]]}[kind]
        self.do_quick_cfg({"pred": pred, "wrap": bool(a % 2)}, self.pc)

    def do_scribble_read(self, which, how):
        """The caller post-processes, in place, the dictionary a distribution read handed out (drops the vacuum entry,
        rescales, empties it). That is the caller's object; the sampler's settings have not changed, so it keeps
        answering like a fresh one."""
        if self.too_big():
            return
        obj = self.sampler if which == "sampler" else self.quick
        for attr in ("probability_distribution", "continuous_distribution"):
            try:
                d = getattr(obj, attr)
            except Exception:  # noqa: BLE001
                return
            try:
                if how == "clear":
                    d.clear()
                elif how == "pop" and d:
                    d.pop(next(iter(d)))
                elif d:
                    for k in list(d):
                        d[k] = d[k] * 0.5 if not isinstance(d[k], tuple) else d[k]
            except (TypeError, AttributeError):
                pass                    # a read-only mapping is fine too
        self.info_labels.add("caller-edits-returned-distribution")

    def do_reject_assign(self, which, attr, k):
        """An assignment the object refuses (it raises): its configuration is what it was before, so it keeps behaving
        like a fresh object with the unchanged settings. Should such a value be accepted instead, the previous valid
        value is assigned again and nothing is asserted about the attempt."""
        import lightworks as lw
        obj = self.sampler if which == "sampler" else self.quick
        n = self.circ.input_modes
        if n < 1:
            return
        values = {
            "input_state": [lw.State([1] * (n + 1)), lw.State([0] * (n - 1)), [1] + [0] * (n - 1),
                            lw.State([-1] + [1] * (n - 1)), None, lw.State([True] + [False] * (n - 1))],
            "circuit": [None, "circuit", lw.State([1] * n)],
            "source": ["source", 1],
            "detector": ["detector", 1],
            "backend": ["clifford", "no-such-backend", 3],
            "post_select": ["rule", 3],
            "photon_counting": ["yes", None, 1],
            "source.indistinguishability": [1.5, -0.2, True, "0.5"],
            "source.purity": [1.5, 0.2, True, "0.9"],
            "source.brightness": [1.5, -0.2, True, "1"],
            "source.probability_threshold": [1.5, -0.2, True, "0"],
            "detector.efficiency": [1.5, -0.2, "1"],
            "detector.p_dark": [1.5, -0.2, "0"],
            "detector.photon_counting": ["yes", None, 1],
        }[attr]
        if "." in attr:
            # refused in-place assignment on the Source / Detector object the Sampler holds
            if which != "sampler":
                return
            holder, name = attr.split(".")
            target = getattr(self.sampler, holder)
            v = values[k % len(values)]
            try:
                setattr(target, name, v)
            except Exception:  # noqa: BLE001
                self.info_labels.add("rejected-assignment:" + attr)
                self.changed("rejected-assignment")
                return
            setattr(target, name, (self.src if holder == "source" else self.det)[name])
            return
        if not hasattr(type(obj), attr):
            return
        v = values[k % len(values)]
        try:
            setattr(obj, attr, v)
        except Exception:  # noqa: BLE001
            self.info_labels.add("rejected-assignment:" + attr)
            self.changed("rejected-assignment")
            return
        # accepted: put the valid value back
        if attr == "input_state":
            obj.input_state = lw.State(list(self.state))
        elif attr == "circuit":
            obj.circuit = self.circ
        elif attr == "source":
            obj.source = __import__("lightworks").emulator.Source(**self.src)
        elif attr == "detector":
            obj.detector = __import__("lightworks").emulator.Detector(**self.det)
        elif attr == "backend":
            obj.backend = self.backend
        elif attr == "post_select":
            self.do_quick_cfg(self.ps, self.pc)
        elif attr == "photon_counting":
            obj.photon_counting = self.pc

    def do_edit_herald(self, n, a):
        c = self.circ
        um = c.n_modes - len(c._internal_modes)
        free = [m for m in range(um) if c._map_mode(m) not in c.heralds["input"]
                and c._map_mode(m) not in c.heralds["output"]]
        if len(free) < 2:
            return
        c.herald(n, free[a % len(free)])
        if self.prog is not None:
            self.prog = {"n": self.prog["n"], "ops": [*self.prog["ops"], ["herald", n, free[a % len(free)], None]]}
        self.fit_state()
        self.changed("herald-in-place")

    def do_param_circuit(self, v1, v2):
        """Assign a parametrised circuit, later steps change the parameters."""
        import lightworks as lw
        n = max(2, min(4, self.circ.input_modes))
        c = lw.Circuit(n)
        self.params[0].set(v1)
        self.params[1].set(v2)
        c.bs(0, reflectivity=self.params[0])
        c.ps(1, self.params[1])
        c.bs(0, loss=self.params[0])
        if n > 2:
            c.bs(1)
        self.circ = c
        self.prog = None
        self.sampler.circuit = c
        self.quick.circuit = c
        self.analyzer.circuit = c
        self.fit_state()
        self.changed("circuit-parametrised")

    def do_set_param(self, i, v):
        self.params[i % 2].set(v)
        self.changed("parameter")

    def do_input(self, occ):
        n = self.circ.input_modes
        s = [0] * n
        for j, x in enumerate(occ[:n]):
            s[j] = x
        while sum(s) > 2:
            s[s.index(max(s))] -= 1
        self.state = s
        self.fit_state()
        self.changed("input")

    def do_source(self, cfg, inplace, attr):
        from lightworks import emulator
        if inplace:
            setattr(self.sampler.source, attr, cfg[attr])
            self.src = dict(self.src)
            self.src[attr] = cfg[attr]
            self.changed("source-attribute")
        else:
            self.sampler.source = emulator.Source(**cfg)
            self.src = dict(cfg)
            self.changed("source")

    def do_backend(self, backend):
        self.sampler.backend = backend
        self.backend = backend
        self.changed("backend")

    def do_detector(self, cfg):
        from lightworks import emulator
        self.sampler.detector = emulator.Detector(**cfg)
        self.det = dict(cfg)
        self.changed("detector")

    def do_detector_attr(self, attr, value):
        setattr(self.sampler.detector, attr, value)
        self.det = dict(self.det)
        self.det[attr] = value
        self.changed("detector-attribute")

    def do_threshold(self, value):
        import lightworks as lw
        lw.settings.sampler_probability_threshold = value
        if value != 1e-9:
            self.info_labels.add("coarse-truncation-threshold")

    def do_quick_cfg(self, ps, pc):
        n = self.circ.input_modes
        if ps is not None:
            ok = all(m < n for r in ps.get("rules", []) for m in r[0])
            if "pred" in ps:
                p = ps["pred"]
                ok = (p[0] == "max-le") or (p[0] == "mode-ne" and p[1] < n) or \
                     (p[0] == "total-in" and all(m < n for m in p[1])) or (p[0] == "state-api" and p[2] < n)
            if not ok:
                ps = None
        self.ps = ps
        self.pc = pc
        # the user keeps a reference to the objects handed over (and may complete them later)
        self.quick_ps_obj, self.an_ps_obj = postsel.to_real(ps), postsel.to_real(ps)
        self.sampler_ps_obj = postsel.to_real(ps)
        self.quick.post_select = self.quick_ps_obj
        self.quick.photon_counting = pc
        self.analyzer.post_selection = self.an_ps_obj
        self.changed("post-selection/detector-mode")

    def do_quick_ps_add(self, mode, count):
        """The PostSelection object held by the QuickSampler is edited in place (a rule is added)."""
        import copy
        n = self.circ.input_modes
        if n == 0 or self.ps is None or "rules" not in self.ps:
            return
        mode = mode % n
        if not self.ps.get("multi") and any(mode in r[0] for r in self.ps["rules"]):
            return
        ps = copy.deepcopy(self.ps)
        ps["rules"].append([[mode], [count]])
        call("PostSelection.add on the object given to the QuickSampler", self.quick_ps_obj.add, mode, count)
        call("PostSelection.add on the object given to the Analyzer", self.an_ps_obj.add, mode, count)
        call("PostSelection.add on the object passed to the Sampler's sampling calls", self.sampler_ps_obj.add,
             mode, count)
        self.ps = ps
        self.changed("post-selection-edited-in-place")

    def do_quick_pc(self, pc):
        self.pc = pc
        self.quick.photon_counting = pc
        self.changed("detector-mode-only")

    # reads ---------------------------------------------------------------
    def do_read(self, which):
        if self.too_big():
            return
        if which == "sampler":
            self.compare("Sampler.probability_distribution", lambda: dict(self.sampler.probability_distribution),
                         lambda: dict(self.fresh_sampler().probability_distribution), same_dist)
        else:
            self.compare("QuickSampler.probability_distribution",
                         lambda: dict(self.quick.probability_distribution),
                         lambda: dict(self.fresh_quick().probability_distribution), same_dist)
        self.dist_read_since_change = True
        self.kinds_since_read = set()

    def do_sample(self, which, seed, n):
        if self.too_big():
            return
        eq = lambda a, b: None if a == b else f"{a} vs {b}"  # noqa: E731

        def seeded(fn):
            def run():
                pyrandom.seed(seed)
                return fn()
            return run
        real_ps = lambda: postsel.to_real(self.ps)  # noqa: E731
        # the long-lived Sampler is given the same post-selection object call after call (the user's object, which
        # may have been extended in between); the fresh Sampler gets a new object with the same rules
        held_ps = lambda: getattr(self, "sampler_ps_obj", None) if self.ps is not None else None  # noqa: E731
        if which == "sampler.sample":
            self.compare("Sampler.sample()", seeded(lambda: self.sampler.sample()),
                         seeded(lambda: self.fresh_sampler().sample()), eq)
        elif which == "quick.sample":
            self.compare("QuickSampler.sample()", seeded(lambda: self.quick.sample()),
                         seeded(lambda: self.fresh_quick().sample()), eq)
        elif which == "N_inputs":
            self.compare("Sampler.sample_N_inputs()",
                         lambda: dict(self.sampler.sample_N_inputs(n, post_select=held_ps(), seed=seed)),
                         lambda: dict(self.fresh_sampler().sample_N_inputs(n, post_select=real_ps(), seed=seed)),
                         eq)
        elif which == "N_outputs":
            self.compare("Sampler.sample_N_outputs()",
                         lambda: dict(self.sampler.sample_N_outputs(n, post_select=held_ps(), seed=seed)),
                         lambda: dict(self.fresh_sampler().sample_N_outputs(n, post_select=real_ps(), seed=seed)),
                         eq)
        else:
            self.compare("QuickSampler.sample_N_outputs()",
                         lambda: dict(self.quick.sample_N_outputs(n, seed=seed)),
                         lambda: dict(self.fresh_quick().sample_N_outputs(n, seed=seed)), eq)
        self.info_labels.add("sampled:" + which)

    def do_analyze(self, use_expected, occ2):
        import lightworks as lw
        from lightworks import emulator
        if self.too_big():
            return
        n = self.circ.input_modes
        s1 = lw.State(list(self.state))
        inputs = [s1]
        s2 = [0] * n
        for j, x in enumerate(occ2[:n]):
            s2[j] = x
        if sum(s2) == sum(self.state) and s2 != self.state:
            inputs.append(lw.State(s2))
        expected = {s: s for s in inputs} if use_expected else None

        def fresh():
            a = emulator.Analyzer(self.circ)
            a.post_selection = postsel.to_real(self.ps)
            return a.analyze(inputs, expected)

        def cmp(a, b):
            oa, ob = [tuple(o) for o in a.outputs], [tuple(o) for o in b.outputs]
            if sorted(oa) != sorted(ob):
                return f"outputs differ: {len(oa)} states vs {len(ob)} states for a fresh analyzer"
            A, B = np.asarray(a.array), np.asarray(b.array)
            if A.shape != B.shape:
                return f"array shapes {A.shape} vs {B.shape}"
            perm = [oa.index(o) for o in ob]
            if not np.allclose(A[:, perm], B, atol=1e-12, rtol=0):
                return "probability arrays differ"
            pa = {k for k in vars(a) if not k.startswith("_")}
            pb = {k for k in vars(b) if not k.startswith("_")}
            if pa != pb:
                return f"result attributes {sorted(pa)} vs {sorted(pb)}"
            if hasattr(a, "error_rate") != (expected is not None):
                return "error_rate present although no expected mapping was given to this call"
            for k in ("performance", "error_rate"):
                if hasattr(a, k) and abs(getattr(a, k) - getattr(b, k)) > 1e-12:
                    return f"{k}: {getattr(a, k)} vs {getattr(b, k)}"
            return None
        self.compare("Analyzer.analyze()", lambda: self.analyzer.analyze(inputs, expected), fresh, cmp)
        self.info_labels.add("analyzed" + ("-expected" if use_expected else ""))

    # ---------------------------------------------------------------- rules
    @initialize(prog=small, thr=st.sampled_from([1e-9, 1e-9, 1e-4, 1e-3]))
    def r_init(self, prog, thr):
        # the truncation threshold is a library setting: fixed for the whole history, before anything is computed
        self.step("threshold", value=thr)
        self.step("init", prog=prog)

    @rule(prog=small, how=st.sampled_from(["random", "move", "photon", "add", "remove", "move", "photon"]),
          a=st.integers(0, 5), b=st.integers(0, 5), n=st.integers(0, 1))
    def r_assign(self, prog, how, a, b, n):
        self.step("assign_circuit", prog=prog, how=how, a=a, b=b, n=n)

    @rule(op=gen.primitive(6, True))
    def r_edit(self, op):
        self.step("edit_circuit", op=op)

    @rule(n=st.integers(0, 1), a=st.integers(0, 5))
    def r_herald(self, n, a):
        self.step("edit_herald", n=n, a=a)

    @rule(v1=st.sampled_from([0.2, 0.5, 0.9]), v2=st.sampled_from([0.0, 1.0, 2.5]))
    def r_param_circuit(self, v1, v2):
        self.step("param_circuit", v1=v1, v2=v2)

    @rule(i=st.integers(0, 1), v=st.sampled_from([0.1, 0.4, 0.75, 1.0, 0.0]))
    def r_set_param(self, i, v):
        self.step("set_param", i=i, v=v)

    @rule(occ=st.lists(st.integers(0, 2), min_size=1, max_size=5))
    def r_input(self, occ):
        self.step("input", occ=occ)

    @rule(cfg=SRC, inplace=st.booleans(),
          attr=st.sampled_from(["brightness", "purity", "indistinguishability", "probability_threshold"]))
    def r_source(self, cfg, inplace, attr):
        self.step("source", cfg=cfg, inplace=inplace, attr=attr)

    @rule(name=st.sampled_from(["permanent", "slos"]))
    def r_backend(self, name):
        self.step("backend", backend=name)

    @rule(cfg=DET)
    def r_detector(self, cfg):
        self.step("detector", cfg=cfg)

    @rule(attr=st.sampled_from(["efficiency", "p_dark", "photon_counting"]), k=st.integers(0, 2))
    def r_detector_attr(self, attr, k):
        value = {"efficiency": [1, 0.6, 0.9], "p_dark": [0, 0.1, 0.3], "photon_counting": [True, False, False]}[attr][k]
        self.step("detector_attr", attr=attr, value=value)

    @rule(ps=postsel.post_selection(3, 2), pc=st.booleans())
    def r_quick_cfg(self, ps, pc):
        self.step("quick_cfg", ps=ps, pc=pc)

    @rule(occ=st.lists(st.integers(0, 2), min_size=2, max_size=4), seed=st.integers(0, 2 ** 20))
    def r_read_pc_read(self, occ, seed):
        """cached QuickSampler distribution -> only photon_counting toggles -> read / sample again"""
        if not self.ready:
            return
        self.step("input", occ=occ)
        self.step("read", which="quick")
        self.step("quick_pc", pc=not self.pc)
        self.step("sample", which="quick.N_outputs", seed=seed, n=20)
        self.step("read", which="quick")

    @rule(attr=st.sampled_from(["brightness", "purity", "indistinguishability", "probability_threshold"]),
          value=st.sampled_from([0.9, 0.6, 0.75]), backend=st.sampled_from([None, "slos", "permanent"]),
          seed=st.integers(0, 2 ** 20))
    def r_read_one_change_read(self, attr, value, backend, seed):
        """cached Sampler distribution -> exactly one source attribute or the backend changes -> read again"""
        if not self.ready:
            return
        self.step("read", which="sampler")
        if backend is not None and backend != self.backend:
            self.step("backend", backend=backend)
        else:
            cfg = dict(self.src)
            cfg[attr] = (1e-3 if self.src[attr] == 0 else 0) if attr == "probability_threshold" else value
            self.step("source", cfg=cfg, inplace=bool(seed % 2), attr=attr)
        self.step("sample", which="N_inputs", seed=seed, n=20)
        self.step("read", which="sampler")

    @rule(useed=st.integers(0, 10 ** 6), seed=st.integers(0, 2 ** 20), m=st.integers(4, 6))
    def r_dense_sample_then_read(self, useed, seed, m):
        """dense interferometer (many small probabilities), sample first, read the distribution afterwards"""
        if not self.ready:
            return
        self.step("assign_circuit", prog={"n": m, "ops": [["unitary", 0, "haar", m, useed]]}, how="random",
                  a=0, b=0, n=0)
        self.step("input", occ=[1, 1, 1])
        self.step("sample", which="N_inputs", seed=seed, n=20)
        self.step("read", which="sampler")

    @rule(useed=st.integers(0, 10 ** 6), m=st.integers(2, 4), mode=st.integers(0, 3),
          loss=st.sampled_from([0.3, 0.5, 0.9]), shorthand=st.booleans(), exp=st.booleans())
    def r_analyze_add_loss_analyze(self, useed, m, mode, loss, shorthand, exp):
        """lossless circuit analysed, then made lossy in place, then analysed again by the same objects"""
        if not self.ready:
            return
        self.step("assign_circuit", prog={"n": m, "ops": [["unitary", 0, "haar", m, useed]]}, how="random",
                  a=0, b=0, n=0)
        self.step("input", occ=[1, 1])
        self.step("analyze", use_expected=exp, occ2=[0, 1, 1])
        self.step("read", which="quick")
        op = ["ps", mode % m, 0.4, loss] if shorthand else ["loss", mode % m, loss]
        self.step("edit_circuit", op=op)
        self.step("analyze", use_expected=exp, occ2=[0, 1, 1])
        self.step("read", which="quick")
        self.step("sample", which="N_outputs", seed=useed, n=20)

    @rule(mode=st.integers(0, 5), count=st.integers(0, 2))
    def r_quick_ps_add(self, mode, count):
        if self.ready:
            self.step("quick_ps_add", mode=mode, count=count)

    @rule(m0=st.integers(0, 5), c0=st.integers(0, 1), mode=st.integers(0, 5), count=st.integers(0, 2),
          multi=st.booleans(), seed=st.integers(0, 2 ** 20))
    def r_read_ps_add_read(self, m0, c0, mode, count, multi, seed):
        """cached QuickSampler distribution -> a rule is added to the held PostSelection object -> read / sample"""
        if not self.ready or self.circ.input_modes == 0:
            return
        n = self.circ.input_modes
        # the object starts with one rule or (c0 == 1, multi) empty, as when a rule set is built step by step
        first = [] if (multi and c0 == 1) else [[[m0 % n], [c0]]]
        self.step("quick_cfg", ps={"rules": first, "multi": multi}, pc=self.pc)
        if seed % 3:
            self.step("read", which="quick")
        self.step("quick_ps_add", mode=mode, count=count)
        self.step("read", which="quick")
        self.step("sample", which="quick.N_outputs", seed=seed, n=20)

    @rule(m0=st.integers(0, 5), mode=st.integers(0, 5), count=st.integers(0, 2), seed=st.integers(0, 2 ** 20),
          which=st.sampled_from(["N_outputs", "N_inputs"]))
    def r_sample_ps_add_sample(self, m0, mode, count, seed, which):
        """seeded sampling with a post-selection object -> a rule is added to that object -> the same call again"""
        if not self.ready or self.circ.input_modes == 0:
            return
        n = self.circ.input_modes
        self.step("quick_cfg", ps={"rules": [[[m0 % n], [0, 1]]], "multi": True}, pc=self.pc)
        self.step("sample", which=which, seed=seed, n=20)
        self.step("quick_ps_add", mode=mode, count=count)
        self.step("sample", which=which, seed=seed, n=20)

    @rule(v1=st.sampled_from([0.2, 0.5, 0.9]), v2=st.sampled_from([0.0, 1.0, 2.5]), i=st.integers(0, 1),
          delta=st.sampled_from([1e-6, 3e-7, -2e-6, 5e-6, 1e-5]), occ=st.lists(st.integers(0, 1), min_size=2, max_size=4))
    def r_read_nudge_read(self, v1, v2, i, delta, occ):
        """cached distributions -> a circuit Parameter moves by a very small amount -> read again"""
        if not self.ready:
            return
        self.step("param_circuit", v1=v1, v2=v2)
        self.step("input", occ=occ)
        self.step("read", which="sampler")
        self.step("read", which="quick")
        self.step("set_param", i=i, v=(v1, v2)[i] + delta)
        self.step("read", which="sampler")
        self.step("read", which="quick")

    @rule(pc=st.booleans())
    def r_quick_pc_only(self, pc):
        """only the detector mode changes (the post-selection object stays the same)"""
        if self.ready:
            self.step("quick_pc", pc=pc)

    @rule(which=st.sampled_from(["sampler", "quick"]))
    def r_read(self, which):
        self.step("read", which=which)

    @rule(which=st.sampled_from(["sampler.sample", "quick.sample", "N_inputs", "N_outputs", "quick.N_outputs"]),
          seed=st.integers(0, 2 ** 20), n=st.sampled_from([1, 20, 60]))
    def r_sample(self, which, seed, n):
        self.step("sample", which=which, seed=seed, n=n)

    @rule(which=st.sampled_from(["sampler", "quick"]))
    def r_read2(self, which):
        self.step("read", which=which)

    @rule(which=st.sampled_from(["sampler.sample", "quick.sample", "N_inputs", "N_outputs", "quick.N_outputs"]),
          seed=st.integers(0, 2 ** 20), n=st.sampled_from([1, 20, 60]))
    def r_sample2(self, which, seed, n):
        self.step("sample", which=which, seed=seed, n=n)

    @rule(attr=st.sampled_from(["brightness", "purity", "indistinguishability", "probability_threshold"]),
          value=st.sampled_from([1, 0.9, 0.6, 0.75]))
    def r_source_attr(self, attr, value):
        cfg = dict(self.src) if self.ready else {}
        cfg[attr] = 1e-3 if attr == "probability_threshold" and value != 1 else (0 if attr == "probability_threshold" else value)
        self.step("source", cfg=cfg, inplace=True, attr=attr)

    @rule(which=st.sampled_from(["sampler", "quick"]), how=st.sampled_from(["move", "photon", "add", "photon"]),
          a=st.integers(0, 5), b=st.integers(0, 5), n=st.integers(0, 1),
          sample=st.sampled_from(["N_inputs", "N_outputs", "quick.N_outputs", "quick.sample", None]),
          seed=st.integers(0, 2 ** 20))
    def r_read_vary_heralds_read(self, which, how, a, b, n, sample, seed):
        """cached distribution -> same components with different heralding -> read again"""
        self.step("read", which=which)
        self.step("assign_circuit", prog={"n": 2, "ops": []}, how=how, a=a, b=b, n=n)
        if sample:
            self.step("sample", which=sample, seed=seed, n=20)
        self.step("read", which=which)

    @rule(which=st.sampled_from(["sampler", "quick"]), op=gen.primitive(6, True), j=st.integers(1, 3),
          n=st.integers(0, 1), nh=st.integers(0, 2),
          sample=st.sampled_from(["N_inputs", "N_outputs", "quick.N_outputs", None, None]), seed=st.integers(0, 2 ** 20))
    def r_read_edit_tail_read(self, which, op, j, n, nh, sample, seed):
        """(heralds on the last modes) -> cached distribution -> in-place edit that touches only the last j modes
        -> read again: what changes is confined to the last rows and columns of the compiled matrix"""
        for _ in range(nh):
            self.step("edit_herald", n=n, a=-1)    # a=-1: the last free user mode
        self.step("read", which=which)
        self.step("edit_tail", op=op, j=j)
        if sample:
            self.step("sample", which=sample, seed=seed, n=20)
        self.step("read", which=which)

    @rule(m=st.sampled_from([12, 32, 33, 40]), useed=st.integers(0, 10 ** 6), at=st.integers(0, 63),
          pos=st.integers(0, 63), refl=st.sampled_from([0.0, 0.3, 0.5]),
          which=st.sampled_from(["sampler", "quick"]),
          sample=st.sampled_from(["N_outputs", "quick.N_outputs", "quick.sample", None]), seed=st.integers(0, 2 ** 20))
    def r_wide_read_edit_read(self, m, useed, at, pos, refl, which, sample, seed):
        """a wide dense circuit (compiled matrix with more than a thousand entries) -> cached distribution -> one
        beam splitter added somewhere in the middle -> read again"""
        self.step("wide_circuit", m=m, useed=useed, at=at)
        self.step("read", which=which)
        self.step("edit_at", pos=pos, refl=refl)
        if sample:
            self.step("sample", which=sample, seed=seed, n=20)
        self.step("read", which=which)

    @rule(i=st.integers(0, 1), slot=st.sampled_from(["reflectivity", "loss", "phase"]),
          v=st.sampled_from([0.1, 0.4, 0.75, 1.0, 0.0]), which=st.sampled_from(["sampler", "quick"]),
          sample=st.sampled_from(["N_inputs", "N_outputs", "quick.N_outputs", None]), seed=st.integers(0, 2 ** 20))
    def r_edit_with_param_read_set_read(self, i, slot, v, which, sample, seed):
        """in-place edit bringing a new Parameter -> read -> the parameter changes -> read / sample"""
        self.step("edit_with_param", i=i, slot=slot)
        self.step("read", which=which)
        self.step("set_param", i=i, v=v)
        if sample:
            self.step("sample", which=sample, seed=seed, n=20)
        self.step("read", which=which)

    @rule(kind=st.sampled_from(["max-le", "mode-ne", "total-in"]), a=st.integers(0, 11), b=st.integers(0, 11),
          sample=st.sampled_from(["quick.N_outputs", "quick.sample", None]), seed=st.integers(0, 2 ** 20))
    def r_pred_read_pred_read(self, kind, a, b, sample, seed):
        """post-selection function -> read -> another function of the same kind (same code, other closure) -> read"""
        self.step("quick_pred", kind=kind, a=a)
        self.step("read", which="quick")
        self.step("quick_pred", kind=kind, a=b)
        if sample:
            self.step("sample", which=sample, seed=seed, n=20)
        self.step("read", which="quick")

    @rule(which=st.sampled_from(["sampler", "quick"]), how=st.sampled_from(["clear", "pop", "scale"]),
          sample=st.sampled_from(["N_inputs", "N_outputs", "quick.N_outputs", "quick.sample", "sampler.sample", None]),
          seed=st.integers(0, 2 ** 20))
    def r_read_scribble_use(self, which, how, sample, seed):
        """distribution read -> the caller edits the returned dictionary in place -> sample / read again"""
        self.step("read", which=which)
        self.step("scribble_read", which=which, how=how)
        if sample:
            self.step("sample", which=sample, seed=seed, n=20)
        self.step("read", which=which)

    @rule(which=st.sampled_from(["sampler", "quick"]),
          attr=st.sampled_from(["input_state", "input_state", "circuit", "source", "detector", "backend", "post_select",
                                "photon_counting", "source.indistinguishability", "source.indistinguishability",
                                "source.purity", "source.brightness", "source.probability_threshold",
                                "detector.efficiency", "detector.p_dark", "detector.photon_counting"]),
          k=st.integers(0, 5),
          sample=st.sampled_from(["N_inputs", "N_outputs", "quick.N_outputs", "quick.sample", "sampler.sample", None]),
          seed=st.integers(0, 2 ** 20))
    def r_rejected_assignment_then_use(self, which, attr, k, sample, seed):
        """an assignment that raises and is caught by the caller, then the object is used on"""
        self.step("reject_assign", which=which, attr=attr, k=k)
        if sample:
            self.step("sample", which=sample, seed=seed, n=20)
        self.step("read", which=which)

    @rule(use_expected=st.booleans(), occ2=st.lists(st.integers(0, 2), min_size=1, max_size=5))
    def r_analyze(self, use_expected, occ2):
        self.step("analyze", use_expected=use_expected, occ2=occ2)

    def teardown(self):
        import lightworks as lw
        lw.settings.sampler_probability_threshold = 1e-9
        self.finish()


def subs(tier):
    q = tier == "quick"
    return [Sub("histories", None, machine=MachineSpec(C11Machine), examples=90 if q else 2500,
                steps=25 if q else 45)]
