"""C10 - parameters are live, bounded and freezable."""
import math
from numbers import Number

import numpy as np
from hypothesis import strategies as st
from hypothesis.stateful import RuleBasedStateMachine, initialize, rule

from vlib import gen
from vlib.build import build_real
from vlib.harness import MachineSpec, RecordingMixin, Sub, Violation, unexpected

PROPERTY = "C10"
RULE = ("Rule-based state machine: a pool of Parameters (with / without bounds and labels) and a ParameterDict; "
        "rules: create, set (valid, out-of-bounds, non-numeric, bool), change min/max bound (valid, invalid, None), "
        "ParameterDict item assignment / new key / overwrite with Parameter / remove, build a circuit from a "
        "generated program whose numeric slots (bs reflectivity, bs/ps loss, phase, loss element - also inside "
        "grouped, ungrouped and heralded sub-circuits, the same parameter possibly several times) are bound to pool "
        "parameters, copy, copy(freeze_parameters=True), the in-place rewrites (unpack_groups, compress_mode_swaps, remove_non_adjacent_bs), read U, list parameters. Model: a Python dict of "
        "values/bounds; oracle after every step: get()/bounds equal the model, min <= value <= max, a rejected "
        "update changed nothing; circuit.U equals the U of the same program rebuilt from scratch with the current "
        "plain values (differential); get_all_params() is exactly the identity-set of parameters used; a frozen "
        "copy keeps the values of the moment it was taken and lists none; a current value that is invalid for its "
        "component makes every read of U raise CircuitCompilationError. Non-trivial = a history with an accepted "
        "and a rejected update and two reads of U of a circuit holding a parameter inside a sub-circuit; distinct "
        "= distinct recorded history.")
ASSUMPTIONS = [
    "value domain: finite ints/floats and strings (NaN/inf excluded: 'within bounds' is meaningless for NaN)",
    "bools are only offered as updates to bounded parameters (where they must be rejected)",
    "U compared with a from-scratch rebuild at 1e-12; the plain-value semantics themselves are decided by C01/C02",
]

unit_val = st.one_of(st.sampled_from([0.0, 1.0, 0.5]), st.floats(0, 1, allow_nan=False))
phase_val = st.one_of(st.sampled_from([0, math.pi, -math.pi / 2]), st.floats(-10, 10, allow_nan=False),
                      st.integers(-5, 5))
any_num = st.one_of(st.floats(-3, 3, allow_nan=False), st.integers(-3, 3), unit_val)
weird = st.sampled_from(["a", "", None, True, False, [1], 1 + 1j])


def is_num(v):
    return isinstance(v, Number) and not isinstance(v, bool)


def valid_for(kind, v):
    if kind == "unit":
        return isinstance(v, Number) and not isinstance(v, complex) and 0 <= v <= 1
    return isinstance(v, Number)


class C10Machine(RecordingMixin, RuleBasedStateMachine):
    def __init__(self):
        super().__init__()
        self.init_recording()
        self.params = []       # {"obj", "value", "min", "max", "kind"}
        self.circs = []        # {"real", "prog", "pids": [pool index per program param], "frozen": None|values}
        self.pdict = None
        self.pkeys = {}        # key -> pool index
        self.accepted = self.rejected = 0
        self.reads = {}

    # ------------------------------------------------------------- helpers
    def check_params(self, what):
        for i, p in enumerate(self.params):
            o = p["obj"]
            try:
                g, mn, mx = o.get(), o.min_bound, o.max_bound
            except Exception as e:  # noqa: BLE001
                raise unexpected(e, "Parameter getters") from e
            both_nan = isinstance(g, float) and isinstance(p["value"], float) and g != g and p["value"] != p["value"]
            if (type(g) is not type(p["value"]) or g != p["value"]) and not both_nan:
                raise Violation(f"{what}: parameter #{i} reports {g!r}, model says {p['value']!r}",
                                key="parameter-value-mismatch")
            if mn != p["min"] or mx != p["max"]:
                raise Violation(f"{what}: parameter #{i} bounds ({mn},{mx}), model ({p['min']},{p['max']})",
                                key="parameter-bounds-mismatch")
            if is_num(g):
                if (mn is not None and g < mn) or (mx is not None and g > mx):
                    raise Violation(f"{what}: parameter #{i} value {g} outside its bounds [{mn},{mx}]",
                                    key="value-outside-bounds")

    def new_param(self, value, bounds, label, kind):
        import lightworks as lw
        try:
            obj = lw.Parameter(value, bounds=bounds, label=label)
        except Exception as e:  # noqa: BLE001
            raise unexpected(e, f"Parameter({value!r}, {bounds})") from e
        self.params.append({"obj": obj, "value": value, "min": bounds[0] if bounds else None,
                            "max": bounds[1] if bounds else None, "kind": kind})
        return len(self.params) - 1

    def current_values(self, circ):
        if circ["frozen"] is not None:
            return circ["frozen"]
        return [self.params[i]["value"] for i in circ["pids"]]

    def check_circuit(self, ci, what):
        from lightworks.sdk.utils import CircuitCompilationError
        circ = self.circs[ci]
        vals = self.current_values(circ)
        kinds = circ["kinds"]
        ok = all(valid_for(k, v) for k, v in zip(kinds, vals))
        real = circ["real"]
        if not ok:
            for attr in ("U", "U_full"):
                try:
                    getattr(real, attr)
                except CircuitCompilationError:
                    continue
                except Exception as e:  # noqa: BLE001
                    raise Violation(f"{what}: invalid parameter value {vals} surfaced as {type(e).__name__}, not "
                                    f"CircuitCompilationError", key="invalid-value-wrong-exception") from e
                raise Violation(f"{what}: circuit #{ci} compiled although a parameter value is invalid for its "
                                f"component (values {vals}, kinds {kinds})", key="invalid-value-compiled")
            self.info_labels.add("invalid-value-surfaced")
            return
        try:
            U = real.U
        except Exception as e:  # noqa: BLE001
            raise unexpected(e, f"{what}: read U of circuit #{ci}") from e
        ref = build_real(circ["prog"], vals).U
        if U.shape != ref.shape or not np.abs(U - ref).max(initial=0.0) <= 1e-12:
            raise Violation(f"{what}: circuit #{ci} ({'frozen' if circ['frozen'] is not None else 'live'}) does not "
                            f"report the unitary for the current parameter values {vals}",
                            key="stale-unitary" if circ["frozen"] is None else "frozen-copy-moved")
        try:
            U[...] = 0          # whatever the caller does to the array it was given, later reads report the circuit
        except (ValueError, TypeError):
            pass
        self.reads[ci] = self.reads.get(ci, 0) + 1
        # listing
        try:
            listed = real.get_all_params()
        except Exception as e:  # noqa: BLE001
            raise unexpected(e, "get_all_params") from e
        expect = [] if circ["frozen"] is not None else [self.params[i]["obj"] for i in circ["pids"]]
        exp_ids = sorted({id(o) for o in expect})
        got_ids = sorted(id(o) for o in listed)
        if got_ids != exp_ids:
            raise Violation(f"{what}: circuit #{ci} lists {len(listed)} parameters "
                            f"({len(set(got_ids))} distinct), expected exactly the {len(exp_ids)} used, each once",
                            key="param-listing" if circ["frozen"] is None else "frozen-lists-params")

    def after_step(self):
        self.check_params("after step")
        for ci in range(len(self.circs)):
            self.check_circuit(ci, "after step")
        if self.accepted and self.rejected and any(
                self.reads.get(ci, 0) >= 2 and c["nested"] for ci, c in enumerate(self.circs)):
            self.nontrivial = True

    # --------------------------------------------------------------- steps
    def do_twin_circuit(self, v, label, bounded):
        """Two distinct Parameters initialised exactly alike, both used in one circuit (which also offers something to
        every in-place rewrite: a non-adjacent beam splitter, two mergeable swaps)."""
        if len(self.circs) >= 4 or len(self.params) >= 7:
            return
        b = [0, 1] if bounded else None
        i1 = self.new_param(v, b, label, "unit")
        i2 = self.new_param(v, b, label, "unit")
        prog = {"n": 3, "ops": [["bs", 0, 2, {"p": 0}, "Rx", 0], ["swaps", [[0, 1], [1, 0]]],
                                ["swaps", [[1, 2], [2, 1]]], ["bs", 1, 2, {"p": 1}, "H", 0]]}
        objs = [self.params[i1]["obj"], self.params[i2]["obj"]]
        try:
            real = build_real(prog, objs)
        except Exception as e:  # noqa: BLE001
            raise unexpected(e, "build circuit with twin parameters") from e
        self.circs.append({"real": real, "prog": prog, "pids": [i1, i2], "kinds": ["unit", "unit"], "frozen": None,
                           "nested": False})
        self.info_labels.add("twin-parameters-in-one-circuit")

    def do_param_twin(self, j):
        """A second, distinct Parameter initialised exactly like an existing one (same current value, bounds, label)."""
        if not self.params or len(self.params) >= 8:
            return
        src = self.params[j % len(self.params)]
        bounds = None if src["min"] is None and src["max"] is None else [src["min"], src["max"]]
        v = src["value"]
        if isinstance(v, (int, float)) and not isinstance(v, bool) and v == v:
            self.new_param(v, bounds, getattr(src["obj"], "label", None), src["kind"])
            self.info_labels.add("twin-parameter")

    def do_param(self, value, bounded, lo, hi, label, kind):
        if len(self.params) >= 8:
            return
        bounds = None
        if bounded:
            a, b = sorted([lo, hi])
            bounds = [min(a, value), max(b, value)]
        self.new_param(value, bounds, label, kind)

    def do_param_one_sided(self, value, bound, side, label, kind):
        """Parameter(value, bounds=[None, b]) / bounds=(b, None): accepted iff the value respects the one bound."""
        import lightworks as lw
        from lightworks.sdk.utils import ParameterBoundsError, ParameterValueError
        if len(self.params) >= 8:
            return
        bounds = [None, bound] if side == "max" else (bound, None)
        ok = value <= bound if side == "max" else value >= bound
        try:
            obj = lw.Parameter(value, bounds=bounds, label=label)
        except (ParameterBoundsError, ParameterValueError, ValueError):
            if ok:
                raise Violation(f"Parameter({value}, bounds={bounds}) rejected although the value respects the bound",
                                key="valid-construction-rejected") from None
            self.rejected += 1
            self.info_labels.add("rejected-construction")
            return
        except Exception as e:  # noqa: BLE001
            raise unexpected(e, f"Parameter({value!r}, bounds={bounds})") from e
        if not ok:
            raise Violation(f"Parameter({value}, bounds={bounds}) was created with its value outside its bounds "
                            f"(value {obj.get()}, bounds [{obj.min_bound}, {obj.max_bound}])",
                            key="value-outside-bounds")
        self.params.append({"obj": obj, "value": value, "min": bounds[0], "max": bounds[1], "kind": kind})
        self.info_labels.add("one-sided-bounds")

    def do_set_nan(self, i):
        """NaN on an unbounded reflectivity / loss parameter: accepted by the parameter, invalid for the component."""
        if not self.params:
            return
        p = self.params[i % len(self.params)]
        if p["kind"] != "unit" or p["min"] is not None or p["max"] is not None:
            return
        try:
            p["obj"].set(float("nan"))
        except Exception as e:  # noqa: BLE001
            raise unexpected(e, "Parameter.set(nan) on an unbounded parameter") from e
        p["value"] = float("nan")
        self.info_labels.add("nan-on-unit-parameter")

    def do_set(self, i, value):
        from lightworks.sdk.utils import ParameterValueError
        if not self.params:
            return
        p = self.params[i % len(self.params)]
        bounded = p["min"] is not None or p["max"] is not None
        if not bounded and isinstance(value, bool):
            return
        reject = False
        if bounded and not is_num(value):
            reject = True
        elif is_num(value) and not isinstance(value, complex):
            if p["min"] is not None and value < p["min"]:
                reject = True
            if p["max"] is not None and value > p["max"]:
                reject = True
        elif bounded:
            reject = True
        try:
            p["obj"].set(value)
        except ParameterValueError:
            if not reject:
                raise Violation(f"set({value!r}) rejected although within bounds [{p['min']},{p['max']}]",
                                key="valid-set-rejected")
            self.rejected += 1
            self.info_labels.add("rejected-set")
            return
        except Exception as e:  # noqa: BLE001
            if reject:
                raise Violation(f"set({value!r}) on bounded parameter raised {type(e).__name__}, expected "
                                f"ParameterValueError", key="wrong-exception-set") from e
            raise unexpected(e, f"Parameter.set({value!r})") from e
        if reject:
            raise Violation(f"set({value!r}) accepted although parameter has bounds [{p['min']},{p['max']}]",
                            key="invalid-set-accepted")
        p["value"] = value
        self.accepted += 1

    def do_bound(self, i, which, value):
        from lightworks.sdk.utils import ParameterBoundsError
        if not self.params:
            return
        p = self.params[i % len(self.params)]
        reject = False
        if value is not None:
            if not is_num(p["value"]) or not is_num(value) or isinstance(value, complex):
                reject = True
            elif which == "min" and p["value"] < value:
                reject = True
            elif which == "max" and p["value"] > value:
                reject = True
        try:
            setattr(p["obj"], which + "_bound", value)
        except ParameterBoundsError:
            if not reject:
                raise Violation(f"{which}_bound = {value!r} rejected although value {p['value']!r} allows it",
                                key="valid-bound-rejected")
            self.rejected += 1
            self.info_labels.add("rejected-bound")
            return
        except Exception as e:  # noqa: BLE001
            if reject:
                raise Violation(f"{which}_bound = {value!r} raised {type(e).__name__}, expected "
                                f"ParameterBoundsError", key="wrong-exception-bound") from e
            raise unexpected(e, "bound setter") from e
        if reject:
            raise Violation(f"{which}_bound = {value!r} accepted with current value {p['value']!r}",
                            key="invalid-bound-accepted")
        p[which] = value
        self.accepted += 1

    def do_pdict(self, action, key, i, value):
        import lightworks as lw
        from lightworks.sdk.utils import ParameterDictError, ParameterValueError
        if self.pdict is None:
            self.pdict = lw.ParameterDict()
        if not self.params:
            return
        if action == "bind":
            idx = i % len(self.params)
            if key in self.pkeys:
                try:
                    self.pdict[key] = self.params[idx]["obj"]
                except ParameterDictError:
                    self.rejected += 1
                    return
                raise Violation("overwriting an existing ParameterDict key with a Parameter was accepted",
                                key="pdict-overwrite-accepted")
            self.pdict[key] = self.params[idx]["obj"]
            self.pkeys[key] = idx
        elif action == "set":
            if key not in self.pkeys:
                try:
                    self.pdict[key] = value
                except ParameterDictError:
                    self.rejected += 1
                    return
                raise Violation("assigning a plain value to a new ParameterDict key was accepted",
                                key="pdict-newkey-accepted")
            idx = self.pkeys[key]
            p = self.params[idx]
            if isinstance(value, bool):
                return
            reject = (p["min"] is not None and value < p["min"]) or (p["max"] is not None and value > p["max"])
            try:
                self.pdict[key] = value
            except ParameterValueError:
                if not reject:
                    raise Violation("valid ParameterDict update rejected", key="valid-set-rejected")
                self.rejected += 1
                return
            if reject:
                raise Violation(f"ParameterDict[{key!r}] = {value} accepted outside bounds", key="invalid-set-accepted")
            p["value"] = value
            self.accepted += 1
            self.info_labels.add("pdict-update")
            got = self.pdict[key]
            if got is not p["obj"]:
                raise Violation("ParameterDict returned a different Parameter object", key="pdict-identity")
        elif action == "remove":
            if key in self.pkeys:
                self.pdict.remove(key)
                del self.pkeys[key]
            else:
                try:
                    self.pdict.remove(key)
                except KeyError:
                    return
                raise Violation("removing a missing ParameterDict key did not raise KeyError", key="pdict-remove")

    def do_circuit(self, pp, reuse, bounded):
        if len(self.circs) >= 4:
            return
        prog, values, kinds = pp["prog"], pp["values"], pp["kinds"]
        pids = []
        for j, (v, k) in enumerate(zip(values, kinds)):
            same = [i for i, p in enumerate(self.params) if p["kind"] == k and valid_for(k, p["value"])]
            r = reuse[j % len(reuse)] if reuse else None
            if same and r is not None and (len(self.params) >= 8 or r % 2 == 0):
                pids.append(same[r % len(same)])
            else:
                b = None
                if bounded and k == "unit":
                    b = [0, 1]
                pids.append(self.new_param(v, b, None if j % 2 else f"p{j}", k))
        objs = [self.params[i]["obj"] for i in pids]
        try:
            real = build_real(prog, objs)
        except Exception as e:  # noqa: BLE001
            raise unexpected(e, "build circuit with parameters") from e
        st_ = gen.program_stats(prog)
        nested = any(isinstance(x, dict) for op in _nested_ops(prog) for x in op)
        self.circs.append({"real": real, "prog": prog, "pids": pids, "kinds": kinds, "frozen": None,
                           "nested": nested})
        if nested:
            self.info_labels.add("parameter-inside-sub-circuit")
        if len(set(pids)) < len(pids):
            self.info_labels.add("parameter-used-twice")
        if st_["heralded_adds"]:
            self.info_labels.add("heralded-sub-circuit")

    def do_rewrite(self, ci, which):
        """In-place rewrites must keep the circuit live (same Parameter objects)."""
        if not self.circs:
            return
        c = self.circs[ci % len(self.circs)]
        vals = self.current_values(c)
        if not all(valid_for(k, v) for k, v in zip(c["kinds"], vals)):
            return
        fn = {"compress": c["real"].compress_mode_swaps, "nonadj": c["real"].remove_non_adjacent_bs,
              "unpack": c["real"].unpack_groups}[which]
        try:
            fn()
        except Exception as e:  # noqa: BLE001
            raise unexpected(e, which) from e
        self.info_labels.add("rewrite:" + which)

    def do_copy(self, ci, freeze):
        if not self.circs or len(self.circs) >= 6:
            return
        src = self.circs[ci % len(self.circs)]
        vals = self.current_values(src)
        if freeze and not all(valid_for(k, v) for k, v in zip(src["kinds"], vals)):
            # frozen while a value is invalid for its component: the copy keeps that value, so using the copy has to
            # surface it as a compilation error exactly as the live circuit does (check_circuit asserts it)
            self.info_labels.add("frozen-while-invalid")
        try:
            real = src["real"].copy(freeze_parameters=freeze)
        except Exception as e:  # noqa: BLE001
            raise unexpected(e, "copy") from e
        new = dict(src)
        new["real"] = real
        if freeze:
            new["frozen"] = list(vals)
            self.info_labels.add("frozen-copy")
        self.circs.append(new)

    # --------------------------------------------------------------- rules
    @initialize(v=unit_val)
    def first(self, v):
        self.step("param", value=v, bounded=True, lo=0, hi=1, label="r", kind="unit")

    @rule(v=st.sampled_from([0.0, 0.5, 1.0, 0.3]), label=st.sampled_from([None, "a"]), bounded=st.booleans())
    def r_twin_circuit(self, v, label, bounded):
        self.step("twin_circuit", v=v, label=label, bounded=bounded)

    @rule(j=st.integers(0, 7))
    def r_param_twin(self, j):
        self.step("param_twin", j=j)

    @rule(value=any_num, bounded=st.booleans(), lo=st.one_of(st.just(0.0), st.floats(-4, 0)),
          hi=st.one_of(st.just(0.0), st.just(0), st.floats(0, 4)),
          label=st.sampled_from([None, "a", "θ"]), kind=st.sampled_from(["unit", "phase"]))
    def r_param(self, value, bounded, lo, hi, label, kind):
        if kind == "unit":
            value = min(1.0, abs(value)) if isinstance(value, float) else abs(value) % 2
            lo, hi = 0.0, 1.0
        self.step("param", value=value, bounded=bounded, lo=lo, hi=hi, label=label, kind=kind)

    @rule(value=st.sampled_from([0.0, 0.3, 0.5, 1.0, 0.75, 1, 0]), bound=st.sampled_from([0.0, 0.5, 1.0, 0.25, 1, 0]),
          side=st.sampled_from(["min", "max"]), label=st.sampled_from([None, "b"]))
    def r_param_one_sided(self, value, bound, side, label):
        self.step("param_one_sided", value=value, bound=bound, side=side, label=label, kind="unit")

    @rule(ci=st.integers(0, 10), j=st.integers(0, 5))
    def r_set_nan(self, ci, j):
        if not self.circs:
            return
        c = self.circs[ci % len(self.circs)]
        if c["pids"]:
            self.step("set_nan", i=c["pids"][j % len(c["pids"])])

    @rule(i=st.integers(0, 20), value=st.one_of(any_num, any_num, st.floats(-30, 30), st.sampled_from(["a", True, None])))
    def r_set(self, i, value):
        self.step("set", i=i, value=value)

    @rule(i=st.integers(0, 20), which=st.sampled_from(["min", "max"]),
          value=st.one_of(st.none(), any_num, st.sampled_from(["x", True, 0, 0.0])))
    def r_bound(self, i, which, value):
        self.step("bound", i=i, which=which, value=value)

    @rule(action=st.sampled_from(["bind", "set", "set", "remove"]), key=st.sampled_from(["a", "b", "c"]),
          i=st.integers(0, 20), value=any_num)
    def r_pdict(self, action, key, i, value):
        self.step("pdict", action=action, key=key, i=i, value=value)

    @rule(pp=gen.parametrized(st.one_of(gen.program(min_n=2, max_n=4, depth=2, max_ops=5),
                                        gen.addition_tree(max_n=3, max_adds=2),
                                        gen.flat_program(min_n=2, max_n=4, max_ops=5)),
                              max_params=3, min_params=1),
          reuse=st.lists(st.one_of(st.none(), st.integers(0, 10)), min_size=1, max_size=4),
          bounded=st.booleans())
    def r_circuit(self, pp, reuse, bounded):
        self.step("circuit", pp=pp, reuse=reuse, bounded=bounded)

    @rule(ci=st.integers(0, 10), j=st.integers(0, 5), value=st.sampled_from([1.5, -0.25, "a", 2, 1.0000001]))
    def r_invalidate(self, ci, j, value):
        """Push a parameter that sits inside a circuit outside its component's range."""
        if not self.circs:
            return
        c = self.circs[ci % len(self.circs)]
        if not c["pids"]:
            return
        self.step("set", i=c["pids"][j % len(c["pids"])], value=value)

    @rule(i=st.integers(0, 20), value=st.sampled_from([0.5, 0.0, 1.0, 0.25]))
    def r_revalidate(self, i, value):
        self.step("set", i=i, value=value)

    @rule(ci=st.integers(0, 10), which=st.sampled_from(["compress", "nonadj", "unpack"]))
    def r_rewrite(self, ci, which):
        self.step("rewrite", ci=ci, which=which)

    @rule(ci=st.integers(0, 10), freeze=st.booleans())
    def r_copy(self, ci, freeze):
        self.step("copy", ci=ci, freeze=freeze)

    def teardown(self):
        self.finish()


def _nested_ops(prog):
    for op in prog["ops"]:
        if op[0] in ("add", "plus"):
            yield from _all_ops(op[1])


def _all_ops(prog):
    for op in prog["ops"]:
        yield op
        if op[0] in ("add", "plus"):
            yield from _all_ops(op[1])


def subs(tier):
    q = tier == "quick"
    return [Sub("histories", None, machine=MachineSpec(C10Machine), examples=90 if q else 1500,
                steps=25 if q else 50)]
